#!/usr/bin/env python3
"""Regenerates MANIFEST.json from the table below (kept in one place so that it stays valid)."""
import json

CLAIMED = {
 "C01": dict(engine="E1+E3", technique="exhaustive exploration of the SAT-oracle choice tree (stateless, deviation-bounded) over all small frameworks",
   text="Every execution of the real single-extension procedures on every framework with <=3 arguments (x5 presentations, every selectable encoder) under EVERY sequence of models a SAT backend may return (complete choice tree of the ChoiceSat oracle), plus the structured family S and (thorough) all 4-argument frameworks under a deviation bound; each leaf judged against a brute-force reference. Bounded exhaustive: nothing sampled.",
   note="trusted: reference semantics by subset enumeration (self-checked), harness DPLL (self-checked against truth tables), Assignment fabrication through CadicalSolver unit clauses; bound: n<=3 complete, n=4 D<=1, S D<=1/2", ref="4 C01, 2.1, 2.3"),
 "C02": dict(engine="E1+E3", technique="exhaustive exploration of the SAT-oracle choice tree over all small frameworks x arguments",
   text="Credulous statuses of every solver the CLI dispatches to, for every argument of every framework with <=3 arguments (x5 presentations x encoders x certificate flag) on every leaf of the complete oracle choice tree, plus S and (thorough) U(4) deviation-bounded, judged against exists-over-reference-extensions.",
   note="same trusted base as C01", ref="4 C02/C03, 2.1"),
 "C03": dict(engine="E1+E3", technique="exhaustive exploration of the SAT-oracle choice tree over all small frameworks x arguments",
   text="Skeptical statuses, same space as C02, judged against forall-over-reference-extensions (ST without extension: every argument accepted; DS-CO = grounded membership).",
   note="same trusted base as C01", ref="4 C02/C03, 2.1"),
 "C04": dict(engine="E1+E3", technique="exhaustive exploration of the SAT-oracle choice tree; certificates judged semantically",
   text="Certificate presence and validity (member of the reference family, contains / avoids the queried argument, caller's own argument objects, no duplicates) on every leaf of the oracle choice tree for all frameworks with <=3 arguments incl. sparse-id and multi-component presentations, plus S and (thorough) U(4).",
   note="same trusted base as C01", ref="4 C04"),
}

NOT_YET = {
}

PROPS = [json.loads(l)["id"] for l in open("/verif/properties.jsonl")]

checks = []
for pid in PROPS:
    if pid not in CLAIMED:
        continue
    c = CLAIMED[pid]
    checks.append({
        "property_id": pid,
        "quick_cmd": f"./check {pid} --tier quick",
        "thorough_cmd": f"./check {pid} --tier thorough",
        "evidence_file": f"/verif/evidence/{pid}.json",
        "replay_cmd_template": f"./check replay --replay {{path}}",
        "engine": c["engine"],
        "level_claimed": {"category": "model_checking", "text": c["text"], "design_ref": "DESIGN.md section " + c["ref"]},
        "level_note": c["note"],
        "technique": c["technique"],
    })

na = [{"property_id": p, "reason": NOT_YET.get(p, "check not built yet in this round (planned, see DESIGN.md section 4); not claimed until its command exists")} for p in PROPS if p not in CLAIMED]

manifest = {
    "version": 1,
    "setup_cmd": "cd /verif && ./setup.sh",
    "hooks": {
        "guard": "crustabri_verif",
        "enable": "no source hook is needed: every seam used (SatSolver trait, solver factories, encoders, readers, binaries) is public; the harness crate depends on /repo by path",
        "baseline_off_cmd": "cd /repo && cargo test --workspace --no-fail-fast --offline",
        "source_commits": [],
        "add_only": True,
    },
    "engines": [
        {"name": "E1 ChoiceSat explorer", "path": "/verif/harness/src/choicesat.rs", "serves_properties": ["C01","C02","C03","C04","C06","C07","C08","C09","C17","C18"], "kind_free_text": "stateless deviation-bounded exploration of all SAT-oracle behaviours on the real solvers"},
        {"name": "E2 history explorer", "path": "/verif/harness/src/checks", "serves_properties": ["C06","C08","C09","C12","C14","C15"], "kind_free_text": "bounded DFS/BFS over operation histories against a set-based reference"},
        {"name": "E3 small-scope enumeration", "path": "/verif/harness/src/universe.rs", "serves_properties": ["C01","C02","C03","C04","C05","C07","C10","C11","C13","C16","C19"], "kind_free_text": "all labelled digraphs up to 3/4 arguments, all token strings up to a length"},
        {"name": "E4 spin model of exec_solver", "path": "/verif/models/extsat.pml", "serves_properties": ["C16"], "kind_free_text": "Promela model of parent/writer/child over two bounded pipes + conformance grid on the real code"},
    ],
    "checks": checks,
    "not_applicable": na,
    "notes": "All checks: ./check <ID> --tier quick|thorough; exit 0 ok, 1 violation (VIOLATION line), 2 machinery error. Known findings: /verif/known_findings.txt.",
}
json.dump(manifest, open("/verif/MANIFEST.json", "w"), indent=1)
print("claimed:", [c["property_id"] for c in checks], "not_applicable:", [n["property_id"] for n in na])
