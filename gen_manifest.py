#!/usr/bin/env python3
"""Regenerates MANIFEST.json from the table below (kept in one place so that it stays valid)."""
import json

CLAIMED = {
 "C01": dict(engine="E1+E3", technique="exhaustive exploration of the SAT-oracle choice tree (stateless, deviation-bounded) over all small frameworks",
   text="Every execution of the real single-extension procedures on every framework with <=3 arguments (x5 presentations, every selectable encoder) under EVERY sequence of models a SAT backend may return (complete choice tree of the ChoiceSat oracle), plus the structured family S, sparse 5-argument classes and all isomorphism classes of 4-argument frameworks under a deviation bound, every isomorphism class of the 6-argument digraphs with <=7 (thorough 8) attacks three dense extremes (complete digraphs on 11/16 arguments) and a composition family of 20 592 irregular frameworks of up to 9 arguments glued from small connected pieces, with the embedded solver (thorough: all 4-argument frameworks with D<=1 and the complete tree on every class); each leaf judged against a brute-force reference. Bounded exhaustive: nothing sampled.",
   note="trusted: reference semantics by subset enumeration (self-checked), harness DPLL (self-checked against truth tables), Assignment fabrication through CadicalSolver unit clauses; bound: n<=3 complete, n=4 D<=1, S D<=1/2", ref="4 C01, 2.1, 2.3"),
 "C02": dict(engine="E1+E3", technique="exhaustive exploration of the SAT-oracle choice tree over all small frameworks x arguments",
   text="Credulous statuses of every solver the CLI dispatches to, for every argument of every framework with <=3 arguments (x5 presentations x encoders x certificate flag) on every leaf of the complete oracle choice tree, plus S, sparse 5-argument classes, all classes of U(4) (thorough: U(4)) deviation-bounded, every class of 6-argument digraphs with <=7 (8) attacks and three dense extremes with the embedded solver, judged against exists-over-reference-extensions.",
   note="same trusted base as C01", ref="4 C02/C03, 2.1"),
 "C03": dict(engine="E1+E3", technique="exhaustive exploration of the SAT-oracle choice tree over all small frameworks x arguments",
   text="Skeptical statuses, same space as C02, judged against forall-over-reference-extensions (ST without extension: every argument accepted; DS-CO = grounded membership).",
   note="same trusted base as C01", ref="4 C02/C03, 2.1"),
 "C04": dict(engine="E1+E3", technique="exhaustive exploration of the SAT-oracle choice tree; certificates judged semantically",
   text="Certificate presence and validity (member of the reference family, contains / avoids the queried argument, caller's own argument objects, no duplicates) on every leaf of the oracle choice tree for all frameworks with <=3 arguments incl. sparse-id and multi-component presentations, plus S and (thorough) U(4).",
   note="same trusted base as C01", ref="4 C04"),
 "C07": dict(engine="E1+E3", technique="exhaustive enumeration of argument lists x oracle choice tree over all small frameworks",
   text="All argument lists of length 1..3 (with repetitions, every order; 1..2 in the quick tier except on <=2-argument frameworks) over all frameworks with <=3 arguments and all two-component unions U(<=2)+U(<=2), through every static solver implementing the acceptance traits, both variants, under the oracle choice tree (complete in thorough, D<=1 in quick) and CaDiCaL; statuses judged as disjunctions over the reference extensions.",
   note="same trusted base as C01", ref="4 C07"),
 "C08": dict(engine="E2+E1", technique="bounded exhaustive exploration of update/query histories (stateless DFS) x oracle choice tree",
   text="Every history of valid updates and supported queries up to depth 7 over 2 labels / depth 6 over 3 labels (thorough: 8 / 7), for the 15 solver configurations (3 buffered solvers, 2 attack-assumption solvers x 5 reservation factors, 2 recompute wrappers), plus all continuations from every <=3-argument framework built with compact and with sparse ids, query sequences from every isomorphism class of U(4), of the sparse 5-argument digraphs and (preferred solver: up to 8 attacks) of the sparse 6-argument digraphs, and seven scripted long histories (60-150 updates over 4-5 labels, every query after every update); each step compared with the reference semantics of the framework at that moment; the shared SAT solver is CaDiCaL and the controlled oracle (D<=2).",
   note="trusted: reference store (bit sets) and reference semantics; certificate ids checked against an insertion-rank ledger; histories longer than the bound, >3 labels, other factors not covered", ref="4 C08, 2.2"),
 "C09": dict(engine="E2+E1", technique="bounded exhaustive exploration of histories with up to 2 redundant/invalid updates at every position",
   text="The C08 alphabet extended with redundant and invalid updates (one never-declared label) at every position, up to 2 per history, depth <=5/6 (thorough 6/8), all 15 solver configurations, from the empty solver and from every <=2-argument framework, plus 4 updates (exactly one bad) then one query from every <=2-argument start state (thorough also 3 labels); redundant must be a no-op, invalid must return Err from the update call itself, later steps must be those of the history without the bad operation. A history is cut at its first deviation; 20 call-site classes of one recorded defect (F7) are listed in known_findings.txt.",
   note="same as C08; the buffered solvers are not explored beyond their first invalid update (known finding F7 cuts the history there)", ref="4 C09, 5.3"),
 "C17": dict(engine="E1 fault injection", technique="exhaustive fault enumeration: Unknown injected at every node of the oracle choice tree",
   text="For every framework with <=3 arguments (and S on the default path; thorough: U(4) default path), every problem, encoder, argument and certificate flag, and every node of the complete oracle choice tree, one extra execution in which that SAT call answers Unknown: the query must unwind and produce no status, certificate or extension. Same for the dynamic solvers over all depth-5 histories ending in a query. Vacuity guard: all unwrap_model call sites of the library are shown reached (backtraces). Process-level failure kinds through the CLI are part of the same check.",
   note="a panic is the accepted way to abort; fault budget 1 per execution", ref="4 C17"),
 "C18": dict(engine="E1 counting oracle", technique="worst case over the complete oracle choice tree against the per-component bound",
   text="For every connected framework with <=3 arguments (complete choice tree), all U(<=2)+U(<=2) unions (sum of component bounds), connected members of S (D<=1/2) and thorough connected U(4) (D<=1): the maximum number of SAT calls over ALL oracle behaviours is compared with the property's bound computed from the reference model; a counting oracle aborts at bound+2 so divergence is a finite counter-example; no candidate handed twice (PR) / more than twice (ID) to one solver object; DS-PR also on the admissibility encoder; the dynamic preferred solver on every connected framework with <=3 arguments.",
   note="bound formulas are the property's own; disconnected frameworks only checked against the implied sum", ref="4 C18"),
 "C10": dict(engine="E3 + all-SAT", technique="exhaustive enumeration of all models of every generated CNF over all small frameworks",
   text="For every labelled digraph with <=4 arguments, sparse 5- and 6-argument iso-classes and a hybrid-threshold family (both sides of the switch observed), every public encoder (7 constructors + the 2 default factories) x {plain, range} x {attacks once, repeated through the ICCMA reader}: the CNF is captured by a recording solver and ALL its models are enumerated by the harness all-SAT; projected model set = reference family (both inclusions), range soundness/completeness, variable layout, assignment_to_extension on every model; encoder objects re-used across frameworks.",
   note="trusted: harness all-SAT (self-checked), reference families; compact ids only, as the property states", ref="4 C10"),
 "C12": dict(engine="E2 stateful BFS", technique="explicit-state BFS over update histories with deduplication on the full concrete state",
   text="Stateful breadth-first exploration of AAFramework<usize> and AAFramework<String> over 2 labels (depth 11/13) and 3 labels (depth 8/9), from three constructors, every operand combination in every state; every observable compared with a set-based reference after EVERY step of every replay; rejected / redundant updates must leave the concrete state byte-identical.",
   note="identical concrete states have identical futures (no abstraction in the dedup key); depth-bounded because ids grow", ref="4 C12"),
 "C13": dict(engine="E3", technique="exhaustive small-scope enumeration of input byte strings with a three-zone oracle",
   text="109 M inputs per quick run (3 G thorough): all token strings (<=6/7 tokens), all line sequences (<=5/6 lines, with/without final newline), every single byte/token/line edit of a 12-file corpus, all byte strings of length <=2 (and 3 over 40 bytes), every well-formed file of U(<=3) in a layout menu, one line of every length with one character of every UTF-8 width at every offset <=130 in 7 syntactic positions, for both readers, and the corpus / line-edit / short line-sequence files also as processes through `crustabri check` (exit status against the same zones); no panic anywhere, strict-grammar files accepted faithfully (labels, ids, order, attacks), the ill-formedness classes the property lists rejected, files with an undecodable line either rejected or read without dropping any well-formed declaration, read_arg_from_str probed.",
   note="the harness zone classifier is the specification; CRLF, irregular spacing, duplicate declarations, exotic number spellings are unspecified on purpose", ref="4 C13, 6"),
 "C14": dict(engine="E2+E3", technique="explicit-state exploration of framework states, each written and read back",
   text="Every unique concrete state of AAFramework<String> reached by the store exploration over three universes of valid Aspartix identifiers is written by AspartixWriter and read back (same labels, order, attack set; output in the strict grammar); every ordered selection of <=3 arguments through both ResponseWriters is byte-compared with the answer grammar and parsed back; statuses byte-exact.",
   note="strict Aspartix grammar of the C13 classifier defines well-formed output", ref="4 C14"),
 "C15": dict(engine="E2", technique="bounded exhaustive exploration of solver-object histories against a truth table",
   text="Every history of exactly 5 (thorough 6) operations ending in a solve call over a 25-operation alphabet on CadicalSolver, and of 3 (thorough 4) on ExternalSatSolver driving the stand-in program: at every solve step verdict and model are checked against a truth table over 7 variables (clauses so far, assumptions of this call only, model queryable for every declared variable, never Unknown); both backends against the same table; plus a finite family of scripted long sessions (up to 400 variables, hundreds of clauses, 30 solve calls on one object) on CaDiCaL and two configurations of the stand-in program, verdicts from the harness DPLL, every model verified.",
   note="variables <= 7, <= 3 solve calls per history in the exhaustive part; external backend = harness stand-in with its own DPLL", ref="4 C15"),
 "C16": dict(engine="E3 + E4 (spin) + conformance", technique="spin exploration of a Promela model of the pipe exchange bound to the code by a conformance grid; exhaustive reply/instance enumeration",
   text="(1) every DIMACS instance written by static and dynamic solvers on the small universe, and during C15's scripted long sessions (up to megabytes of clause text), is parsed strictly by the stand-in program; (2) every reply of <=3 (thorough 4) lines over a 17-line alphabet is interpreted and compared with a strict output-format parser; (3) models/extsat.pml: all interleavings of parent, writer thread and child over two bounded pipes for every scenario (6 child behaviours x instance x reply sizes), explored by spin for both parent orders; the 72-scenario grid is replayed on the real ExternalSatSolver under a watchdog (reply sizes around the real pipe capacity) and compared with the model of the required order; parent syscall order validated with strace.",
   note="the OS scheduler is not controlled on the real code; interleaving coverage is on the model, binding is by outcome table + syscall order", ref="2.4, 4 C16"),
 "C19": dict(engine="E3", technique="exhaustive small-scope enumeration against all complete extensions",
   text="EquivalencyComputer on every labelled digraph with <=4 arguments and all 7.1 M labelled 5-argument digraphs with <=10 attacks (thorough: all 33.5 M) and every isomorphism class of the 6-argument digraphs with <=7 (8) attacks in three numberings, in compact, duplicate-attack and reversed-insertion-order presentation: every pair of merged arguments compared on ALL complete extensions; partition, totality, inverse mappings, reduced labels.",
   note="soundness of merging only; nothing demanded about coarseness", ref="4 C19"),
 "C05": dict(engine="E5 process sweep", technique="exhaustive enumeration of command-line invocations as real processes, judged by the reference model",
   text="Every (instance file, problem, argument, option configuration) of a finite product is run as a real process of crustabri solve and crustabri_iccma23: thorough = U(<=2) x 21 problems x arguments x 3 reader settings x 4 encodings x certificate x logging, all 104 classes of U(3) and S with a reduced product (~85 k processes); quick = the same product on <=1 argument, reduced on 2 arguments, minimal on 6 three-argument classes, chains and 2 members of S, each also through --external-sat-solver with a stand-in backend reporting the smallest / largest model, plus 3 (thorough 7) structured instances of 1000-1500 arguments in both formats whose printed witnesses are verified directly and whose statuses are compared with the library called in-process (~7.8 k processes). stdout parsed with the answer grammar and judged semantically; 296 malformed invocations of 40 classes must exit non-zero without any answer line; the --problems listing must be exactly the 21 accepted problems (three spellings).",
   note="each process costs ~65 ms (the binaries scan /proc at start-up), which bounds the quick tier", ref="4 C05, 2.5"),
 "C06": dict(engine="E1+E2+E5", technique="exhaustive configuration matrix over the oracle choice tree + bounded exploration of query sequences on one solver object",
   text="(a) for every framework with <=3 arguments (plus duplicate-attack presentations and the hybrid-threshold members of S), problem and argument, the statuses of ALL cells {encoders} x {CaDiCaL, every leaf of the complete oracle choice tree} x {certificate flag} must coincide (no reference), external-process cells judged against the reference; (b) every sequence of <=3 queries (U(<=2)) / 2 queries (U(3), S) on ONE solver object per (solver type, encoder): same status as a fresh object, valid answer, framework state byte-identical afterwards.",
   note="same trusted base as C01; sequences of length 3 on U(3) only in thorough", ref="4 C06"),
 "C11": dict(engine="E3 (small scope) + finite grid", technique="exhaustive enumeration of presentations of all small frameworks; complete finite grid of large structured frameworks with reference-free oracles",
   text="Small scope: every framework with <=3 arguments in every argument permutation x attack-line order x duplication pattern x reader, and united with 8 companions in 3 placements; every sparse 4-argument class under all 24 permutations; sparse 5-argument classes without stable extension under all 120 permutations for the range-based semantics; hybrid-threshold frameworks united with one another under every encoder (returned sets verified per component); all judged by the reference and the locality rule. Large scope (20-300 arguments, no reference possible): 10 structured families x sizes x 15 presentations + 3 unions; statuses must equal the identity presentation's, cross-semantics consistency rules must hold, every returned set is verified directly.",
   note="the universal claim over all large frameworks is outside any exhaustive bound: decided are the complete small scope and the complete finite grid (CaDiCaL only on the grid)", ref="4 C11, 8"),
}

NOT_YET = {
}

PROPS = [json.loads(l)["id"] for l in open("/verif/properties.jsonl")]

checks = []
for pid in PROPS:
    if pid not in CLAIMED:
        continue
    c = CLAIMED[pid]
    checks.append({
        "property_id": pid,
        "quick_cmd": f"./check {pid} --tier quick",
        "thorough_cmd": f"./check {pid} --tier thorough",
        "evidence_file": f"/verif/evidence/{pid}.json",
        "replay_cmd_template": f"./check replay --replay {{path}}",
        "engine": c["engine"],
        "level_claimed": {"category": "model_checking", "text": c["text"], "design_ref": "DESIGN.md section " + c["ref"]},
        "level_note": c["note"],
        "technique": c["technique"],
    })

na = [{"property_id": p, "reason": NOT_YET.get(p, "check not built yet in this round (planned, see DESIGN.md section 4); not claimed until its command exists")} for p in PROPS if p not in CLAIMED]

manifest = {
    "version": 1,
    "setup_cmd": "cd /verif && ./setup.sh",
    "hooks": {
        "guard": "crustabri_verif",
        "enable": "no source hook is needed: every seam used (SatSolver trait, solver factories, encoders, readers, binaries) is public; the harness crate depends on /repo by path",
        "baseline_off_cmd": "cd /repo && cargo test --workspace --no-fail-fast --offline",
        "source_commits": [],
        "add_only": True,
    },
    "engines": [
        {"name": "E1 ChoiceSat explorer", "path": "/verif/harness/src/choicesat.rs", "serves_properties": ["C01","C02","C03","C04","C06","C07","C08","C09","C17","C18"], "kind_free_text": "stateless deviation-bounded exploration of all SAT-oracle behaviours on the real solvers"},
        {"name": "E2 history explorer", "path": "/verif/harness/src/checks", "serves_properties": ["C06","C08","C09","C12","C14","C15"], "kind_free_text": "bounded DFS/BFS over operation histories against a set-based reference"},
        {"name": "E3 small-scope enumeration", "path": "/verif/harness/src/universe.rs", "serves_properties": ["C01","C02","C03","C04","C05","C07","C10","C11","C13","C16","C19"], "kind_free_text": "all labelled digraphs up to 3/4 arguments, all token strings up to a length"},
        {"name": "E4 spin model of exec_solver", "path": "/verif/models/extsat.pml", "serves_properties": ["C16"], "kind_free_text": "Promela model of parent/writer/child over two bounded pipes + conformance grid on the real code"},
    ],
    "checks": checks,
    "not_applicable": na,
    "notes": "All checks: ./check <ID> --tier quick|thorough; exit 0 ok, 1 violation (VIOLATION line), 2 machinery error. Known findings: /verif/known_findings.txt.",
}
json.dump(manifest, open("/verif/MANIFEST.json", "w"), indent=1)
print("claimed:", [c["property_id"] for c in checks], "not_applicable:", [n["property_id"] for n in na])
