//! Shared driver: graphs x presentations x queries x oracle behaviours for the static solvers.

use crate::choicesat::{explore, Exec, ExploreCfg, ExploreStats, FvPolicy};
use crate::refmodel::{Graph, RefAnswers, Sem, ALL_SEMS};
use crate::report::Violation;
use crate::staticq::{cadical_factory, encoder_menu, judge, run_query, Aspect, Out, QKind, Query};
use crate::universe::{build_apx, build_usize, check_built, Built, Presentation};
use crustabri::utils::LabelType;
use rayon::prelude::*;
use serde_json::{json, Value};
use std::collections::BTreeSet;

pub trait BuiltVisitor {
    fn visit<T: LabelType>(&mut self, b: &Built<T>);
}

pub fn with_presentation(g: &Graph, p: Presentation, v: &mut impl BuiltVisitor) {
    let note = || format!("some library call on {} [{}]", g.describe(), p.name());
    crate::mem::with_note(&note, || with_presentation_inner(g, p, v))
}

fn with_presentation_inner(g: &Graph, p: Presentation, v: &mut impl BuiltVisitor) {
    match p {
        Presentation::Apx => {
            let b = build_apx(g);
            check_built(g, &b).expect("harness: presentation does not represent the graph");
            v.visit(&b)
        }
        _ => {
            let b = build_usize(g, p);
            check_built(g, &b).expect("harness: presentation does not represent the graph");
            v.visit(&b)
        }
    }
}

#[derive(Clone, Debug)]
pub enum ArgLists {
    /// every single argument
    Single,
    /// every list of length 1..=k over the arguments (with repetitions, every order)
    Lists(usize),
}

pub fn arg_lists(n: usize, mode: &ArgLists) -> Vec<Vec<usize>> {
    match mode {
        ArgLists::Single => (0..n).map(|a| vec![a]).collect(),
        ArgLists::Lists(k) => {
            let mut out: Vec<Vec<usize>> = vec![];
            let mut cur: Vec<Vec<usize>> = vec![vec![]];
            for _ in 0..*k {
                let mut next = vec![];
                for c in &cur {
                    for a in 0..n {
                        let mut d = c.clone();
                        d.push(a);
                        next.push(d);
                    }
                }
                out.extend(next.iter().cloned());
                cur = next;
            }
            out
        }
    }
}

pub fn queries_for(
    n: usize,
    kinds: &[QKind],
    sems: &[Sem],
    certs: &[bool],
    lists: &ArgLists,
    with_lib_default: bool,
) -> Vec<Query> {
    let mut out = vec![];
    for &kind in kinds {
        for &sem in sems {
            for enc in encoder_menu(kind, sem, with_lib_default) {
                match kind {
                    QKind::SE => out.push(Query { kind, sem, args: vec![], cert: false, enc }),
                    _ => {
                        for args in arg_lists(n, lists) {
                            for &cert in certs {
                                out.push(Query { kind, sem, args: args.clone(), cert, enc });
                            }
                        }
                    }
                }
            }
        }
    }
    out
}

#[derive(Default)]
pub struct Acc {
    pub stats: ExploreStats,
    pub evaluations: u64,
    pub cadical_runs: u64,
    pub nontrivial: BTreeSet<String>,
    pub outcomes: BTreeSet<String>,
    /// first violation and count per (property, key)
    pub violations: std::collections::BTreeMap<(String, String), (u64, Violation)>,
    pub samples: Vec<Value>,
    pub machinery: Vec<String>,
    pub graphs: u64,
    pub built: u64,
    pub queries: u64,
    pub wall_s: f64,
}

impl Acc {
    pub fn merge(mut self, o: Acc) -> Acc {
        self.wall_s += o.wall_s;
        self.stats.add(&o.stats);
        self.evaluations += o.evaluations;
        self.cadical_runs += o.cadical_runs;
        self.nontrivial.extend(o.nontrivial);
        for x in o.outcomes {
            if self.outcomes.len() < 5000 {
                self.outcomes.insert(x);
            }
        }
        for (k, (n, v)) in o.violations {
            let e = self.violations.entry(k).or_insert((0, v));
            e.0 += n;
        }
        for s in o.samples {
            if self.samples.len() < 6 {
                self.samples.push(s);
            }
        }
        self.machinery.extend(o.machinery);
        self.graphs += o.graphs;
        self.built += o.built;
        self.queries += o.queries;
        self
    }
    pub fn violation(&mut self, v: Violation) {
        let k = (v.property.clone(), v.key.clone());
        let e = self.violations.entry(k).or_insert((0, v));
        e.0 += 1;
    }
}

pub type PropOf = fn(&Query, Aspect) -> Option<&'static str>;

pub struct StaticSweep<'r> {
    pub gname: &'r str,
    pub g: &'r Graph,
    pub pres: Presentation,
    pub ra: &'r RefAnswers,
    pub queries: &'r [Query],
    pub cfgs: &'r [ExploreCfg],
    pub with_cadical: bool,
    /// maps a deviation to the property it falsifies (None: not this check's business)
    pub prop_of: PropOf,
    pub acc: &'r mut Acc,
}

pub fn case_json(gname: &str, g: &Graph, pres: Presentation, q: &Query, backend: &str, fv: FvPolicy, choices: &[usize]) -> Value {
    json!({
        "engine": "static",
        "graph_name": gname,
        "graph": g.to_json(),
        "presentation": pres.name(),
        "query": q.to_json(),
        "backend": backend,
        "free_var_policy": fv.name(),
        "choices": choices,
    })
}

impl<'r> StaticSweep<'r> {
    fn handle<T: LabelType>(&mut self, q: &Query, backend: &str, fv: FvPolicy, choices: &[usize], result: &Result<Out, String>) {
        self.acc.evaluations += 1;
        // very long choice vectors (diverging searches) are abbreviated in messages
        let shown: Vec<usize> = choices.iter().cloned().take(40).collect();
        let choices_msg = if choices.len() > 40 { format!("{:?}... ({} calls)", shown, choices.len()) } else { format!("{:?}", shown) };
        match result {
            Ok(out) => {
                if self.acc.outcomes.len() < 2000 {
                    self.acc.outcomes.insert(format!("{} {}", q.problem(), out.describe()));
                }
                for (aspect, msg) in judge(self.ra, q, out) {
                    if let Some(prop) = (self.prop_of)(q, aspect) {
                        let key = format!(
                            "problem={};enc={};aspect={:?};multi={}",
                            q.problem(),
                            q.enc.name(),
                            aspect,
                            q.args.len() > 1
                        );
                        self.acc.violation(Violation {
                            property: prop.to_string(),
                            key,
                            message: format!(
                                "{} {:?} cert={} enc={} on {} [{}] ({}; backend {} choices {}): {} -- observed: {}",
                                q.problem(),
                                q.args,
                                q.cert,
                                q.enc.name(),
                                self.g.describe(),
                                self.pres.name(),
                                self.gname,
                                backend,
                                choices_msg,
                                msg,
                                out.describe()
                            ),
                            case: case_json(self.gname, self.g, self.pres, q, backend, fv, choices),
                        });
                    }
                }
            }
            Err(p) => {
                // a panic with a conforming backend is a failure of whichever property the query serves
                let aspect = match q.kind {
                    QKind::SE => Aspect::Extension,
                    _ => {
                        if q.cert {
                            Aspect::Certificate
                        } else {
                            Aspect::Status
                        }
                    }
                };
                let prop = (self.prop_of)(q, aspect).or_else(|| (self.prop_of)(q, Aspect::Status));
                if let Some(prop) = prop {
                    self.acc.violation(Violation {
                        property: prop.to_string(),
                        key: format!("problem={};enc={};aspect=panic", q.problem(), q.enc.name()),
                        message: format!(
                            "{} {:?} cert={} enc={} on {} [{}] (backend {} choices {}) panicked: {}",
                            q.problem(),
                            q.args,
                            q.cert,
                            q.enc.name(),
                            self.g.describe(),
                            self.pres.name(),
                            backend,
                            choices_msg,
                            p
                        ),
                        case: case_json(self.gname, self.g, self.pres, q, backend, fv, choices),
                    });
                }
            }
        }
    }
}

impl<'r> BuiltVisitor for StaticSweep<'r> {
    fn visit<T: LabelType>(&mut self, b: &Built<T>) {
        self.acc.built += 1;
        let queries = self.queries;
        for q in queries {
            let (g0, pres0) = (self.g, self.pres);
            let note = move || format!("{} {:?} cert={} enc={} on {} [{}]", q.problem(), q.args, q.cert, q.enc.name(), g0.describe(), pres0.name());
            crate::mem::with_note(&note, || {
            self.acc.queries += 1;
            let cfgs = self.cfgs;
            for cfg in cfgs {
                let cfg = &cfg.clone(); // own stop flag
                let mut execs: Vec<(Vec<usize>, Result<Out, String>)> = vec![];
                let ra = self.ra;
                cfg.stop.set(false);
                let r = explore(
                    cfg,
                    &mut |factory| run_query(b, q, factory),
                    &mut |e: &Exec<Out>| {
                        // the first deviating execution of a case ends its exploration
                        let bad = match e.result {
                            Ok(o) => !judge(ra, q, o).is_empty(),
                            Err(_) => true,
                        };
                        if bad {
                            cfg.stop.set(true);
                        }
                        execs.push((e.choices.clone(), e.result.clone()));
                    },
                );
                cfg.stop.set(false);
                match r {
                    Ok(st) => self.acc.stats.add(&st),
                    Err(m) => self.acc.machinery.push(format!("{} on {}: {}", q.problem(), self.g.describe(), m.0)),
                }
                if self.acc.samples.len() < 3 && execs.len() > 1 {
                    self.acc.samples.push(json!({
                        "graph": self.g.describe(), "presentation": self.pres.name(), "query": q.to_json(),
                        "executions": execs.len(),
                        "first_choice_vectors": execs.iter().take(4).map(|(c, r)| json!({"choices": c, "outcome": r.as_ref().map(|o| o.describe()).unwrap_or_else(|e| e.clone())})).collect::<Vec<_>>(),
                    }));
                }
                for (choices, result) in &execs {
                    self.handle::<T>(q, "choicesat", cfg.fv, choices, result);
                }
            }
            if self.with_cadical {
                let result = crate::choicesat::catch(|| run_query(b, q, cadical_factory()));
                self.acc.cadical_runs += 1;
                self.handle::<T>(q, "cadical", FvPolicy::False, &[], &result);
            }
            });
        }
    }
}

/// name prefix of graphs that are asked with the library's default encoder only (see `SweepPlan::run`)
pub const LIB_DEFAULT_ONLY: &str = "libdefault:";

pub struct SweepPlan {
    pub graphs: Vec<(String, Graph)>,
    pub presentations: Vec<Presentation>,
    pub kinds: Vec<QKind>,
    pub sems: Vec<Sem>,
    pub certs: Vec<bool>,
    pub lists: ArgLists,
    pub with_lib_default: bool,
    pub cfgs: Vec<ExploreCfg>,
    pub with_cadical: bool,
    pub prop_of: PropOf,
}

impl SweepPlan {
    pub fn run(&self) -> Acc {
        let t0 = std::time::Instant::now();
        let ras: Vec<RefAnswers> = self.graphs.par_iter().map(|(_, g)| RefAnswers::new(g)).collect();
        let mut base = Acc::default();
        base.graphs = self.graphs.len() as u64;
        for ((_, g), ra) in self.graphs.iter().zip(ras.iter()) {
            for &sem in &self.sems {
                if ra.ext(sem).len() >= 2 {
                    base.nontrivial.insert(format!("{}|{}", g.describe(), sem.name()));
                }
            }
        }
        let queries: Vec<Vec<Query>> = self
            .graphs
            .iter()
            .map(|(name, g)| {
                // graphs whose name starts with LIB_DEFAULT_ONLY are asked with the library's default encoder only
                let lib_only = name.starts_with(LIB_DEFAULT_ONLY);
                let mut qs = queries_for(g.n, &self.kinds, &self.sems, &self.certs, &self.lists, self.with_lib_default || lib_only);
                if lib_only {
                    qs.retain(|q| q.enc == crate::staticq::Enc::LibDefault);
                }
                // the exponential encoder is exponential by design: not asked where it needs > 10^6 clauses
                if crate::universe::exp_clause_bound(g) > 1_000_000 {
                    qs.retain(|q| q.enc != crate::staticq::Enc::ExpCO);
                }
                qs
            })
            .collect();
        // tasks: (graph, presentation, chunk of queries); big graphs get small chunks
        let mut tasks: Vec<(usize, Presentation, usize, usize)> = vec![];
        for (gi, (_, g)) in self.graphs.iter().enumerate() {
            let chunk = if g.n <= 3 { usize::MAX } else if g.n <= 5 { 16 } else { 2 };
            for &p in &self.presentations {
                let nq = queries[gi].len();
                let mut s = 0;
                while s < nq {
                    let e = if chunk == usize::MAX { nq } else { (s + chunk).min(nq) };
                    tasks.push((gi, p, s, e));
                    s = e;
                }
                if nq == 0 {
                    tasks.push((gi, p, 0, 0));
                }
            }
        }
        let acc = tasks
            .par_iter()
            .with_max_len(1)
            .map(|&(gi, p, s, e)| {
                let mut acc = Acc::default();
                let (name, g) = &self.graphs[gi];
                let mut sw = StaticSweep {
                    gname: name,
                    g,
                    pres: p,
                    ra: &ras[gi],
                    queries: &queries[gi][s..e],
                    cfgs: &self.cfgs,
                    with_cadical: self.with_cadical,
                    prop_of: self.prop_of,
                    acc: &mut acc,
                };
                with_presentation(g, p, &mut sw);
                acc
            })
            .reduce(Acc::default, Acc::merge);
        let mut out = base.merge(acc);
        out.wall_s = t0.elapsed().as_secs_f64();
        out
    }
}

pub fn named(gs: Vec<Graph>, prefix: &str) -> Vec<(String, Graph)> {
    gs.into_iter().map(|g| (format!("{}:{}#{}", prefix, g.n, g.code()), g)).collect()
}

pub fn all_sems() -> Vec<Sem> {
    ALL_SEMS.to_vec()
}
