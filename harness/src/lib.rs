pub mod checks;
pub mod choicesat;
pub mod dpll;
pub mod refmodel;
pub mod report;
pub mod staticq;
pub mod sweep;
pub mod universe;
