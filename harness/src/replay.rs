//! `cvx replay --replay <file>`: re-execute one recorded case twice, without the explorer.

use crate::choicesat::{catch, replay, ExploreCfg, FvPolicy};
use crate::refmodel::{Graph, RefAnswers};
use crate::staticq::{cadical_factory, judge, run_query, Out, Query};
use crate::sweep::{with_presentation, BuiltVisitor};
use crate::universe::{Built, Presentation};
use crustabri::utils::LabelType;
use serde_json::Value;

pub fn fv_from_name(s: &str) -> FvPolicy {
    match s {
        "true" => FvPolicy::True,
        "trailing-none" => FvPolicy::TrailingNone,
        _ => FvPolicy::False,
    }
}

struct StaticReplay<'a> {
    q: &'a Query,
    backend: &'a str,
    fv: FvPolicy,
    choices: &'a [usize],
    faults: bool,
    out: Vec<Result<Out, String>>,
}

impl<'a> BuiltVisitor for StaticReplay<'a> {
    fn visit<T: LabelType>(&mut self, b: &Built<T>) {
        for _ in 0..2 {
            let r = if self.backend == "cadical" {
                catch(|| run_query(b, self.q, cadical_factory()))
            } else {
                let cfg = ExploreCfg { fv: self.fv, faults: self.faults, ..ExploreCfg::default() };
                let (r, _calls, div) = replay(&cfg, self.choices, &mut |f| run_query(b, self.q, f));
                if let Some(d) = div {
                    eprintln!("MACHINERY-ERROR: {}", d);
                    std::process::exit(2);
                }
                r
            };
            self.out.push(r);
        }
    }
}

pub fn run(path: &str) -> i32 {
    let text = match std::fs::read_to_string(path) {
        Ok(t) => t,
        Err(e) => {
            eprintln!("cannot read {}: {}", path, e);
            return 2;
        }
    };
    let v: Value = serde_json::from_str(&text).expect("replay file is not JSON");
    let case = &v["case"];
    let prop = v["property"].as_str().unwrap_or("?");
    match case["engine"].as_str().unwrap_or("") {
        "memory" => {
            // the guard names the case it stopped in; the replay is the check itself
            println!("case: memory guard tripped in {} ({}): {}", case["check"], case["tier"], case["note"]);
            let exe = std::env::current_exe().unwrap();
            let st = std::process::Command::new(exe).arg(case["check"].as_str().unwrap_or("C01")).args(["--tier", case["tier"].as_str().unwrap_or("quick")]).status();
            match st.ok().and_then(|s| s.code()) {
                Some(0) => {
                    println!("REPLAY: no violation");
                    0
                }
                Some(1) => {
                    println!("REPLAY: violation reproduced");
                    1
                }
                _ => 2,
            }
        }
        "static" => {
            let g = Graph::from_json(&case["graph"]);
            let pres = Presentation::from_name(case["presentation"].as_str().unwrap()).unwrap();
            let q = Query::from_json(&case["query"]);
            let choices: Vec<usize> = case["choices"].as_array().unwrap().iter().map(|x| x.as_u64().unwrap() as usize).collect();
            let mut r = StaticReplay {
                q: &q,
                backend: case["backend"].as_str().unwrap(),
                fv: fv_from_name(case["free_var_policy"].as_str().unwrap_or("false")),
                choices: &choices,
                faults: case["faults"].as_bool().unwrap_or(false),
                out: vec![],
            };
            with_presentation(&g, pres, &mut r);
            let ra = RefAnswers::new(&g);
            println!("case: {} {:?} cert={} enc={} on {} [{}] backend={} choices={:?}", q.problem(), q.args, q.cert, q.enc.name(), g.describe(), pres.name(), r.backend, choices);
            let mut bad = false;
            for (i, o) in r.out.iter().enumerate() {
                match o {
                    Ok(out) => {
                        let errs = judge(&ra, &q, out);
                        println!("run {}: observed {} ; deviations: {:?}", i + 1, out.describe(), errs);
                        bad |= !errs.is_empty();
                    }
                    Err(p) => {
                        println!("run {}: panicked: {}", i + 1, p);
                        bad = true;
                    }
                }
            }
            if r.out[0] != r.out[1] {
                eprintln!("MACHINERY-ERROR: the two replays differ (uncontrolled nondeterminism)");
                return 2;
            }
            if bad {
                println!("VIOLATION property={} replay={}", prop, path);
                1
            } else {
                println!("no deviation on the current tree");
                0
            }
        }
        other => crate::replay_more::run(other, prop, path, &v),
    }
}


struct ExploreVisitor<'a> {
    q: &'a Query,
    ra: &'a RefAnswers,
    limit: usize,
}

impl<'a> BuiltVisitor for ExploreVisitor<'a> {
    fn visit<T: LabelType>(&mut self, b: &Built<T>) {
        let cfg = ExploreCfg { dev_bound: None, call_limit: self.limit, ..ExploreCfg::default() };
        let mut n = 0;
        let q = self.q;
        let ra = self.ra;
        let st = crate::choicesat::explore(&cfg, &mut |f| run_query(b, q, f), &mut |e: &crate::choicesat::Exec<Out>| {
            n += 1;
            let desc = match e.result {
                Ok(o) => format!("{} deviations={:?}", o.describe(), judge(ra, q, o)),
                Err(p) => format!("panic: {}", p),
            };
            if n <= 200 {
                println!("exec {:4} choices={:?} calls={} limit_hit={} -> {}", n, e.choices, e.calls.len(), e.call_limit_hit, desc);
            }
        });
        println!("total executions: {} stats: {:?}", n, st.map(|s| (s.execs, s.nodes, s.max_calls)).ok());
    }
}

/// debug helper: explore the complete oracle tree of one static case and print every execution
pub fn explore_case(path: &str) -> i32 {
    let text = std::fs::read_to_string(path).expect("cannot read case");
    let v: Value = serde_json::from_str(&text).expect("not JSON");
    let case = if v.get("case").is_some() { &v["case"] } else { &v };
    let g = Graph::from_json(&case["graph"]);
    let pres = Presentation::from_name(case["presentation"].as_str().unwrap_or("compact")).unwrap();
    let q = Query::from_json(&case["query"]);
    let ra = RefAnswers::new(&g);
    let mut vis = ExploreVisitor { q: &q, ra: &ra, limit: case["call_limit"].as_u64().unwrap_or(60) as usize };
    with_presentation(&g, pres, &mut vis);
    0
}
