//! E2 (+E1) for the dynamic solvers: operation histories over a tiny label universe, executed on
//! the real solver objects and judged step by step against a set-based reference store and the
//! reference semantics of the framework as it stands at that moment.

use crate::choicesat::catch;
use crate::refmodel::{Graph, Ref, Sem};
use crustabri::aa::Argument;
use crustabri::dynamics::assumptions_on_attacks::{DynamicCompleteSemanticsSolverAttacks, DynamicStableSemanticsSolverAttacks};
use crustabri::dynamics::{
    DummyDynamicConstraintsEncoder, DynamicCompleteSemanticsSolver, DynamicPreferredSemanticsSolver, DynamicSolver,
    DynamicStableSemanticsSolver,
};
use crustabri::sat::SatSolverFactoryFn;
use crustabri::solvers::{
    CompleteSemanticsSolver, CredulousAcceptanceComputer, PreferredSemanticsSolver, SkepticalAcceptanceComputer,
    StableSemanticsSolver,
};
use serde_json::{json, Value};
use std::rc::Rc;

pub const MAX_LABELS: usize = 4;
/// labels of the universe; index MAX_LABELS is the never-declared label
pub const LABELS: [usize; 6] = [10, 20, 30, 40, 99, 50];
pub const UNKNOWN: u8 = 4;
pub const FACTORS: [f64; 5] = [1.0, 1.25, 1.5, 2.0, 3.0];

#[derive(Clone, Copy, Debug, PartialEq, Eq, Hash, PartialOrd, Ord)]
pub enum DynKind {
    Complete,
    Stable,
    Preferred,
    CompleteAtt(u8),
    StableAtt(u8),
    DummyCoPr,
    DummySt,
}

impl DynKind {
    pub fn name(self) -> String {
        match self {
            DynKind::Complete => "DynamicCompleteSemanticsSolver".into(),
            DynKind::Stable => "DynamicStableSemanticsSolver".into(),
            DynKind::Preferred => "DynamicPreferredSemanticsSolver".into(),
            DynKind::CompleteAtt(f) => format!("DynamicCompleteSemanticsSolverAttacks(factor={})", FACTORS[f as usize]),
            DynKind::StableAtt(f) => format!("DynamicStableSemanticsSolverAttacks(factor={})", FACTORS[f as usize]),
            DynKind::DummyCoPr => "DummyDynamicConstraintsEncoder(complete,preferred)".into(),
            DynKind::DummySt => "DummyDynamicConstraintsEncoder(stable,stable)".into(),
        }
    }
    /// solver type without parameters (used in classification keys)
    pub fn type_name(self) -> &'static str {
        match self {
            DynKind::Complete => "DynamicCompleteSemanticsSolver",
            DynKind::Stable => "DynamicStableSemanticsSolver",
            DynKind::Preferred => "DynamicPreferredSemanticsSolver",
            DynKind::CompleteAtt(_) => "DynamicCompleteSemanticsSolverAttacks",
            DynKind::StableAtt(_) => "DynamicStableSemanticsSolverAttacks",
            DynKind::DummyCoPr => "DummyDynamicConstraintsEncoder",
            DynKind::DummySt => "DummyDynamicConstraintsEncoder",
        }
    }
    pub fn from_name(s: &str) -> Option<DynKind> {
        all_kinds().into_iter().find(|k| k.name() == s)
    }
    /// semantics deciding credulous queries (None: unsupported)
    pub fn dc_sem(self) -> Option<Sem> {
        match self {
            DynKind::Complete | DynKind::CompleteAtt(_) | DynKind::DummyCoPr => Some(Sem::CO),
            DynKind::Stable | DynKind::StableAtt(_) | DynKind::DummySt => Some(Sem::ST),
            DynKind::Preferred => None,
        }
    }
    pub fn ds_sem(self) -> Option<Sem> {
        match self {
            DynKind::Preferred | DynKind::DummyCoPr => Some(Sem::PR),
            DynKind::Stable | DynKind::StableAtt(_) | DynKind::DummySt => Some(Sem::ST),
            DynKind::Complete | DynKind::CompleteAtt(_) => None,
        }
    }
    pub fn is_dummy(self) -> bool {
        matches!(self, DynKind::DummyCoPr | DynKind::DummySt)
    }
}

pub fn all_kinds() -> Vec<DynKind> {
    let mut v = vec![DynKind::Complete, DynKind::Stable, DynKind::Preferred];
    for f in 0..FACTORS.len() as u8 {
        v.push(DynKind::CompleteAtt(f));
    }
    for f in 0..FACTORS.len() as u8 {
        v.push(DynKind::StableAtt(f));
    }
    v.push(DynKind::DummyCoPr);
    v.push(DynKind::DummySt);
    v
}

pub trait DynSut: DynamicSolver<usize> + CredulousAcceptanceComputer<usize> + SkepticalAcceptanceComputer<usize> {}
impl<X> DynSut for X where X: DynamicSolver<usize> + CredulousAcceptanceComputer<usize> + SkepticalAcceptanceComputer<usize> {}

pub fn make_sut(kind: DynKind, factory: Box<SatSolverFactoryFn>) -> Box<dyn DynSut> {
    match kind {
        DynKind::Complete => Box::new(DynamicCompleteSemanticsSolver::<usize>::new_with_sat_solver_factory(factory)),
        DynKind::Stable => Box::new(DynamicStableSemanticsSolver::<usize>::new_with_sat_solver_factory(factory)),
        DynKind::Preferred => Box::new(DynamicPreferredSemanticsSolver::<usize>::new_with_sat_solver_factory(factory)),
        DynKind::CompleteAtt(f) => Box::new(DynamicCompleteSemanticsSolverAttacks::<usize>::new_with_sat_solver_factory_and_arg_factor(
            factory,
            FACTORS[f as usize],
        )),
        DynKind::StableAtt(f) => Box::new(DynamicStableSemanticsSolverAttacks::<usize>::new_with_sat_solver_factory_and_arg_factor(
            factory,
            FACTORS[f as usize],
        )),
        DynKind::DummyCoPr => {
            let f: Rc<Box<SatSolverFactoryFn>> = Rc::new(factory);
            let f1 = Rc::clone(&f);
            let f2 = Rc::clone(&f);
            Box::new(DummyDynamicConstraintsEncoder::<usize>::new(
                Some(Box::new(move |af| {
                    let f1 = Rc::clone(&f1);
                    Box::new(CompleteSemanticsSolver::new_with_sat_solver_factory(af, Box::new(move || (f1)())))
                })),
                Some(Box::new(move |af| {
                    let f2 = Rc::clone(&f2);
                    Box::new(PreferredSemanticsSolver::new_with_sat_solver_factory(af, Box::new(move || (f2)())))
                })),
            ))
        }
        DynKind::DummySt => {
            let f: Rc<Box<SatSolverFactoryFn>> = Rc::new(factory);
            let f1 = Rc::clone(&f);
            let f2 = Rc::clone(&f);
            Box::new(DummyDynamicConstraintsEncoder::<usize>::new(
                Some(Box::new(move |af| {
                    let f1 = Rc::clone(&f1);
                    Box::new(StableSemanticsSolver::new_with_sat_solver_factory(af, Box::new(move || (f1)())))
                })),
                Some(Box::new(move |af| {
                    let f2 = Rc::clone(&f2);
                    Box::new(StableSemanticsSolver::new_with_sat_solver_factory(af, Box::new(move || (f2)())))
                })),
            ))
        }
    }
}

#[derive(Clone, Copy, Debug, PartialEq, Eq, Hash, PartialOrd, Ord)]
pub enum Op {
    NewArg(u8),
    RemArg(u8),
    NewAtt(u8, u8),
    RemAtt(u8, u8),
    Query { skeptical: bool, arg: u8, cert: bool },
}

impl Op {
    pub fn to_json(&self) -> Value {
        match *self {
            Op::NewArg(a) => json!(["new_argument", LABELS[a as usize]]),
            Op::RemArg(a) => json!(["remove_argument", LABELS[a as usize]]),
            Op::NewAtt(a, b) => json!(["new_attack", LABELS[a as usize], LABELS[b as usize]]),
            Op::RemAtt(a, b) => json!(["remove_attack", LABELS[a as usize], LABELS[b as usize]]),
            Op::Query { skeptical, arg, cert } => {
                json!([if skeptical { "skeptical" } else { "credulous" }, LABELS[arg as usize], if cert { "cert" } else { "nocert" }])
            }
        }
    }
    pub fn from_json(v: &Value) -> Op {
        let idx = |x: &Value| LABELS.iter().position(|l| *l as u64 == x.as_u64().unwrap()).unwrap() as u8;
        match v[0].as_str().unwrap() {
            "new_argument" => Op::NewArg(idx(&v[1])),
            "remove_argument" => Op::RemArg(idx(&v[1])),
            "new_attack" => Op::NewAtt(idx(&v[1]), idx(&v[2])),
            "remove_attack" => Op::RemAtt(idx(&v[1]), idx(&v[2])),
            q => Op::Query { skeptical: q == "skeptical", arg: idx(&v[1]), cert: v[2].as_str() == Some("cert") },
        }
    }
    pub fn short(&self) -> String {
        match *self {
            Op::NewArg(a) => format!("+{}", LABELS[a as usize]),
            Op::RemArg(a) => format!("-{}", LABELS[a as usize]),
            Op::NewAtt(a, b) => format!("+{}>{}", LABELS[a as usize], LABELS[b as usize]),
            Op::RemAtt(a, b) => format!("-{}>{}", LABELS[a as usize], LABELS[b as usize]),
            Op::Query { skeptical, arg, cert } => format!("{}{}{}", if skeptical { "DS" } else { "DC" }, LABELS[arg as usize], if cert { "c" } else { "" }),
        }
    }
    pub fn is_query(&self) -> bool {
        matches!(self, Op::Query { .. })
    }
}

pub fn history_str(ops: &[Op]) -> String {
    ops.iter().map(|o| o.short()).collect::<Vec<_>>().join(" ")
}

/// Set-based reference store with an id ledger.
#[derive(Clone, Copy, Debug, PartialEq, Eq, Hash)]
pub struct RefState {
    pub args: u8,
    /// bit a*6+b (six labels; in the C09 alphabets the fifth one is the never-declared label)
    pub atts: u64,
    pub ids: [u8; 6],
    pub next_id: u8,
}

#[derive(Clone, Copy, Debug, PartialEq, Eq, Hash)]
pub enum OpClass {
    Valid,
    /// already present: must be a no-op
    Redundant,
    /// must be rejected by the update call itself
    Invalid,
    /// query on an argument that does not exist: outside the alphabet
    Illegal,
}

impl RefState {
    pub fn new() -> Self {
        RefState { args: 0, atts: 0, ids: [0; 6], next_id: 0 }
    }
    pub fn has_arg(&self, a: u8) -> bool {
        self.args >> a & 1 == 1
    }
    pub fn has_att(&self, a: u8, b: u8) -> bool {
        a < 6 && b < 6 && self.atts >> (a as u64 * 6 + b as u64) & 1 == 1
    }
    pub fn classify(&self, op: &Op) -> OpClass {
        match *op {
            Op::NewArg(a) => {
                if self.has_arg(a) {
                    OpClass::Redundant
                } else {
                    OpClass::Valid
                }
            }
            Op::RemArg(a) => {
                if self.has_arg(a) {
                    OpClass::Valid
                } else {
                    OpClass::Invalid
                }
            }
            Op::NewAtt(a, b) => {
                if !self.has_arg(a) || !self.has_arg(b) {
                    OpClass::Invalid
                } else if self.has_att(a, b) {
                    OpClass::Redundant
                } else {
                    OpClass::Valid
                }
            }
            Op::RemAtt(a, b) => {
                if self.has_arg(a) && self.has_arg(b) && self.has_att(a, b) {
                    OpClass::Valid
                } else {
                    OpClass::Invalid
                }
            }
            Op::Query { arg, .. } => {
                if self.has_arg(arg) {
                    OpClass::Valid
                } else {
                    OpClass::Illegal
                }
            }
        }
    }
    /// apply a *valid* update
    pub fn apply(&mut self, op: &Op) {
        match *op {
            Op::NewArg(a) => {
                self.args |= 1 << a;
                self.ids[a as usize] = self.next_id;
                self.next_id += 1;
            }
            Op::RemArg(a) => {
                self.args &= !(1 << a);
                for x in 0..6u64 {
                    self.atts &= !(1u64 << (a as u64 * 6 + x));
                    self.atts &= !(1u64 << (x * 6 + a as u64));
                }
            }
            Op::NewAtt(a, b) => self.atts |= 1u64 << (a as u64 * 6 + b as u64),
            Op::RemAtt(a, b) => self.atts &= !(1u64 << (a as u64 * 6 + b as u64)),
            Op::Query { .. } => {}
        }
    }
    /// the graph on label indices 0..4 restricted to present arguments, plus index map new -> label idx
    pub fn graph(&self) -> (Graph, Vec<usize>) {
        let present: Vec<usize> = (0..LABELS.len()).filter(|&a| self.has_arg(a as u8)).collect();
        let mut att = vec![];
        for (i, &a) in present.iter().enumerate() {
            for (j, &b) in present.iter().enumerate() {
                if self.has_att(a as u8, b as u8) {
                    att.push((i, j));
                }
            }
        }
        (Graph::new(present.len(), &att), present)
    }
    pub fn describe(&self) -> String {
        let (g, present) = self.graph();
        let atts: Vec<String> = g.att.iter().map(|&(a, b)| format!("{}->{}", LABELS[present[a]], LABELS[present[b]])).collect();
        format!("args {:?} attacks [{}]", present.iter().map(|&p| LABELS[p]).collect::<Vec<_>>(), atts.join(","))
    }
}

/// extension families of the current reference state, as masks over label indices
pub struct StateAnswers {
    pub co: Vec<u8>,
    pub pr: Vec<u8>,
    pub st: Vec<u8>,
}

thread_local! {
    static ANSWER_CACHE: std::cell::RefCell<std::collections::HashMap<(u8, u64), Rc<StateAnswers>>> = std::cell::RefCell::new(std::collections::HashMap::new());
}

pub fn answers_of(s: &RefState) -> Rc<StateAnswers> {
    ANSWER_CACHE.with(|c| {
        let mut c = c.borrow_mut();
        if let Some(a) = c.get(&(s.args, s.atts)) {
            return Rc::clone(a);
        }
        let (g, present) = s.graph();
        let r = Ref::new(&g);
        let conv = |fam: Vec<u32>| -> Vec<u8> {
            fam.into_iter()
                .map(|m| {
                    let mut out = 0u8;
                    for (i, &p) in present.iter().enumerate() {
                        if m >> i & 1 == 1 {
                            out |= 1 << p;
                        }
                    }
                    out
                })
                .collect()
        };
        let a = Rc::new(StateAnswers { co: conv(r.all_complete()), pr: conv(r.preferred()), st: conv(r.all_stable()) });
        c.insert((s.args, s.atts), Rc::clone(&a));
        a
    })
}

impl StateAnswers {
    pub fn fam(&self, sem: Sem) -> &[u8] {
        match sem {
            Sem::CO => &self.co,
            Sem::PR => &self.pr,
            Sem::ST => &self.st,
            _ => panic!("unsupported semantics for dynamic solvers"),
        }
    }
}

#[derive(Clone, Debug, PartialEq, Eq, Hash)]
pub enum StepObs {
    Unit,
    Ok,
    Err,
    /// status, certificate as (label, id) pairs
    Answer(bool, Option<Vec<(usize, usize)>>),
    Panic(String),
}

impl StepObs {
    pub fn describe(&self) -> String {
        match self {
            StepObs::Unit => "()".into(),
            StepObs::Ok => "Ok".into(),
            StepObs::Err => "Err".into(),
            StepObs::Answer(b, None) => format!("{}", if *b { "YES" } else { "NO" }),
            StepObs::Answer(b, Some(c)) => format!("{} cert {:?}", if *b { "YES" } else { "NO" }, c.iter().map(|x| x.0).collect::<Vec<_>>()),
            StepObs::Panic(p) => format!("panic: {}", p),
        }
    }
}

fn obs_cert(c: Option<Vec<&Argument<usize>>>) -> Option<Vec<(usize, usize)>> {
    c.map(|v| v.iter().map(|a| (*a.label(), a.id())).collect())
}

/// Execute a history on a fresh solver object; stops after the first panic and (the history being
/// cut at its first deviation) after the first step the judge objects to.
pub fn run_history(kind: DynKind, ops: &[Op], factory: Box<SatSolverFactoryFn>) -> Vec<StepObs> {
    let note = || format!("some step of the history {:?} on {:?}", ops, kind);
    crate::mem::with_note(&note, || run_history_inner(kind, ops, factory))
}

fn run_history_inner(kind: DynKind, ops: &[Op], factory: Box<SatSolverFactoryFn>) -> Vec<StepObs> {
    let mut out = Vec::with_capacity(ops.len());
    let mut judge = Judge::new(kind);
    let mut sut = match catch(|| make_sut(kind, factory)) {
        Ok(s) => s,
        Err(p) => return vec![StepObs::Panic(format!("constructor: {}", p))],
    };
    for op in ops {
        let r = catch(|| match *op {
            Op::NewArg(a) => {
                sut.new_argument(LABELS[a as usize]);
                StepObs::Unit
            }
            Op::RemArg(a) => match sut.remove_argument(&LABELS[a as usize]) {
                Ok(()) => StepObs::Ok,
                Err(_) => StepObs::Err,
            },
            Op::NewAtt(a, b) => match sut.new_attack(&LABELS[a as usize], &LABELS[b as usize]) {
                Ok(()) => StepObs::Ok,
                Err(_) => StepObs::Err,
            },
            Op::RemAtt(a, b) => match sut.remove_attack(&LABELS[a as usize], &LABELS[b as usize]) {
                Ok(()) => StepObs::Ok,
                Err(_) => StepObs::Err,
            },
            Op::Query { skeptical, arg, cert } => {
                let l = &LABELS[arg as usize];
                match (skeptical, cert) {
                    (false, false) => StepObs::Answer(sut.is_credulously_accepted(l), None),
                    (false, true) => {
                        let (s, c) = sut.is_credulously_accepted_with_certificate(l);
                        StepObs::Answer(s, obs_cert(c))
                    }
                    (true, false) => StepObs::Answer(sut.is_skeptically_accepted(l), None),
                    (true, true) => {
                        let (s, c) = sut.is_skeptically_accepted_with_certificate(l);
                        StepObs::Answer(s, obs_cert(c))
                    }
                }
            }
        });
        match r {
            Ok(o) => {
                let stop = judge.step(op, &o).is_some();
                out.push(o);
                if stop {
                    break;
                }
            }
            Err(p) => {
                out.push(StepObs::Panic(p));
                break;
            }
        }
    }
    // dropping a poisoned solver must not take the harness down
    let _ = catch(move || drop(sut));
    out
}

#[derive(Clone, Debug)]
pub struct Deviation {
    pub step: usize,
    /// "C08" for valid histories, "C09" when a redundant / invalid update is involved
    pub property: &'static str,
    pub key: String,
    pub message: String,
}

fn operand_class(s: &RefState, op: &Op) -> &'static str {
    match *op {
        Op::NewArg(_) => "existing_argument",
        Op::RemArg(_) => "unknown_argument",
        Op::NewAtt(a, b) => {
            if !s.has_arg(a) || !s.has_arg(b) {
                "unknown_endpoint"
            } else {
                "existing_attack"
            }
        }
        Op::RemAtt(a, b) => {
            if !s.has_arg(a) || !s.has_arg(b) {
                "unknown_endpoint"
            } else {
                "absent_attack"
            }
        }
        Op::Query { .. } => "query",
    }
}

fn op_name(op: &Op) -> &'static str {
    match op {
        Op::NewArg(_) => "new_argument",
        Op::RemArg(_) => "remove_argument",
        Op::NewAtt(_, _) => "new_attack",
        Op::RemAtt(_, _) => "remove_attack",
        Op::Query { skeptical: false, .. } => "credulous_query",
        Op::Query { skeptical: true, .. } => "skeptical_query",
    }
}

/// Incremental judge: feed (operation, observation) pairs in order; returns the first deviation.
pub struct Judge {
    kind: DynKind,
    s: RefState,
    bad_seen: bool,
    i: usize,
    /// id under which each live label was last seen in a certificate (ids must be stable for the life
    /// of an argument and distinct between live arguments; which numbers the solver's private
    /// framework hands out is not prescribed)
    seen_ids: [Option<usize>; 6],
}

impl Judge {
    pub fn new(kind: DynKind) -> Self {
        Judge { kind, s: RefState::new(), bad_seen: false, i: 0, seen_ids: [None; 6] }
    }

    pub fn step(&mut self, op: &Op, o: &StepObs) -> Option<Deviation> {
        let kind = self.kind;
        let i = self.i;
        self.i += 1;
        let class = self.s.classify(op);
        if class != OpClass::Valid {
            self.bad_seen = true;
        }
        let bad_seen = self.bad_seen;
        let s = self.s;
        let prop: &'static str = if bad_seen { "C09" } else { "C08" };
        let dev = |symptom: &str, msg: String| {
            let context = if class == OpClass::Valid {
                if bad_seen {
                    "after_bad_update"
                } else {
                    "valid_history"
                }
            } else if class == OpClass::Redundant {
                "redundant"
            } else {
                "invalid"
            };
            Some(Deviation {
                step: i,
                property: prop,
                key: format!("solver={};op={};operand={};context={};symptom={}", kind.type_name(), op_name(op), if class == OpClass::Valid { "valid" } else { operand_class(&s, op) }, context, symptom),
                message: format!("{} step {} ({}) in state {{{}}}: {}", kind.name(), i + 1, op.short(), s.describe(), msg),
            })
        };
        if let StepObs::Panic(p) = o {
            return dev("panic", format!("panicked: {}", p));
        }
        match (op, class) {
            (Op::Query { .. }, OpClass::Illegal) => panic!("harness: illegal query in history"),
            (Op::Query { skeptical, arg, cert }, _) => {
                let sem = if *skeptical { kind.ds_sem() } else { kind.dc_sem() }.expect("harness: unsupported query in history");
                let ans = answers_of(&s);
                let fam = ans.fam(sem);
                let bit = 1u8 << arg;
                let expected = if *skeptical { fam.iter().all(|e| e & bit != 0) } else { fam.iter().any(|e| e & bit != 0) };
                let (st, c) = match o {
                    StepObs::Answer(st, c) => (*st, c),
                    other => return dev("not_an_answer", format!("query returned {}", other.describe())),
                };
                if st != expected {
                    return dev("wrong_status", format!("answered {} but the {} semantics of the current framework dictate {}", if st { "YES" } else { "NO" }, sem.name(), if expected { "YES" } else { "NO" }));
                }
                if *cert {
                    let promised = *skeptical != st;
                    match (promised, c) {
                        (true, None) => return dev("certificate_missing", "certificate promised but missing".into()),
                        (false, Some(_)) => return dev("certificate_unexpected", "certificate given where none is promised".into()),
                        (false, None) => {}
                        (true, Some(list)) => {
                            let mut m = 0u8;
                            for &(label, id) in list {
                                let idx = match LABELS.iter().position(|l| *l == label) {
                                    Some(x) if s.has_arg(x as u8) => x,
                                    _ => return dev("bad_certificate", format!("certificate member {} is not an argument of the current framework", label)),
                                };
                                if m >> idx & 1 == 1 {
                                    return dev("bad_certificate", format!("certificate lists {} twice", label));
                                }
                                match self.seen_ids[idx] {
                                    Some(prev) if prev != id => {
                                        return dev("bad_certificate", format!("certificate member {} has id {} but had id {} in an earlier certificate (ids must be stable for the life of an argument)", label, id, prev));
                                    }
                                    _ => {}
                                }
                                if (0..6).any(|o| o != idx && s.has_arg(o as u8) && self.seen_ids[o] == Some(id)) {
                                    return dev("bad_certificate", format!("certificate member {} has id {}, which another live argument also has", label, id));
                                }
                                self.seen_ids[idx] = Some(id);
                                m |= 1 << idx;
                            }
                            if !fam.contains(&m) {
                                return dev("bad_certificate", format!("certificate {:?} is not a {} extension of the current framework", list.iter().map(|x| x.0).collect::<Vec<_>>(), sem.name()));
                            }
                            if !*skeptical && m & bit == 0 {
                                return dev("bad_certificate", "certificate does not contain the queried argument".into());
                            }
                            if *skeptical && m & bit != 0 {
                                return dev("bad_certificate", "certificate contains the queried argument".into());
                            }
                        }
                    }
                }
            }
            (Op::NewArg(_), OpClass::Valid) => {
                self.s.apply(op);
            }
            (Op::NewArg(_), _) => {}
            (_, OpClass::Valid) => {
                if *o != StepObs::Ok {
                    return dev("valid_update_rejected", format!("valid update returned {}", o.describe()));
                }
                if let Op::RemArg(a) = op {
                    self.seen_ids[*a as usize] = None;
                }
                self.s.apply(op);
            }
            (_, OpClass::Redundant) => {
                if *o != StepObs::Ok {
                    return dev("redundant_update_rejected", format!("redundant update returned {}", o.describe()));
                }
            }
            (_, OpClass::Invalid) => {
                if *o != StepObs::Err {
                    return dev("update_returned_ok", format!("invalid update returned {} instead of an error", o.describe()));
                }
            }
            (_, OpClass::Illegal) => unreachable!(),
        }
        None
    }
}

/// First deviation of an observed history from what the properties demand, if any.
pub fn judge_history(kind: DynKind, ops: &[Op], obs: &[StepObs]) -> Option<Deviation> {
    let mut j = Judge::new(kind);
    for (op, o) in ops.iter().zip(obs.iter()) {
        if let Some(d) = j.step(op, o) {
            return Some(d);
        }
    }
    None
}

/// Enumerate all histories of exactly `depth` further operations from state `s` (DFS), calling `f`
/// on each complete history. `bad_budget`: how many redundant / invalid updates may still be used.
pub struct Alphabet {
    pub n_labels: u8,
    pub kind: DynKind,
    pub with_unknown_label: bool,
    /// include the variant without certificate for queries (always for the dummy solver)
    pub nocert_queries: bool,
    pub max_queries: usize,
    /// continuations consist of queries only
    pub queries_only: bool,
    /// continuations are update operations followed by exactly one final query
    pub updates_then_query: bool,
    /// operations that a later phase will append to the histories enumerated now (the final query
    /// of `updates_then_query` belongs to the last phase only)
    pub tail: usize,
    /// number of history-tree nodes visited (prefixes)
    pub nodes: std::cell::Cell<u64>,
}

impl Alphabet {
    pub fn ops(&self, s: &RefState, bad_budget: usize, queries_used: usize) -> Vec<Op> {
        let n = self.n_labels;
        let mut v = vec![];
        let lab_hi = if bad_budget > 0 && self.with_unknown_label { n + 1 } else { n };
        let lab = |i: u8| if i == n { UNKNOWN } else { i };
        let lab_hi = if self.queries_only { 0 } else { lab_hi };
        for i in 0..lab_hi {
            let a = lab(i);
            if a != UNKNOWN {
                let op = Op::NewArg(a);
                let c = s.classify(&op);
                if c == OpClass::Valid || bad_budget > 0 {
                    v.push(op);
                }
            }
            let op = Op::RemArg(a);
            let c = s.classify(&op);
            if c == OpClass::Valid || bad_budget > 0 {
                v.push(op);
            }
        }
        for i in 0..lab_hi {
            for j in 0..lab_hi {
                let (a, b) = (lab(i), lab(j));
                for op in [Op::NewAtt(a, b), Op::RemAtt(a, b)] {
                    let c = s.classify(&op);
                    if c == OpClass::Valid {
                        v.push(op);
                    } else if bad_budget > 0 {
                        // at most one unknown endpoint family member per shape: keep all (tiny)
                        v.push(op);
                    }
                }
            }
        }
        if queries_used < self.max_queries {
            for a in 0..n {
                if !s.has_arg(a) {
                    continue;
                }
                for skeptical in [false, true] {
                    let supported = if skeptical { self.kind.ds_sem().is_some() } else { self.kind.dc_sem().is_some() };
                    if !supported {
                        continue;
                    }
                    v.push(Op::Query { skeptical, arg: a, cert: true });
                    if self.nocert_queries || self.kind.is_dummy() {
                        v.push(Op::Query { skeptical, arg: a, cert: false });
                    }
                }
            }
        }
        v
    }

    pub fn for_each_history(&self, prefix: &[Op], depth: usize, bad_budget: usize, f: &mut dyn FnMut(&[Op])) {
        let mut s = RefState::new();
        let mut bad_used = 0;
        let mut queries = 0;
        for op in prefix {
            match s.classify(op) {
                OpClass::Valid => s.apply(op),
                OpClass::Illegal => panic!("harness: illegal op in prefix"),
                _ => bad_used += 1,
            }
            if op.is_query() {
                queries += 1;
            }
        }
        let mut cur = prefix.to_vec();
        self.rec(&mut cur, s, depth, bad_budget.saturating_sub(bad_used), queries, f);
    }

    fn rec(&self, cur: &mut Vec<Op>, s: RefState, depth: usize, bad_budget: usize, queries: usize, f: &mut dyn FnMut(&[Op])) {
        self.nodes.set(self.nodes.get() + 1);
        if depth == 0 {
            f(cur);
            return;
        }
        for op in self.ops(&s, bad_budget, queries) {
            if self.updates_then_query && (op.is_query() != (depth == 1 && self.tail == 0)) {
                continue;
            }
            let c = s.classify(&op);
            let mut s2 = s;
            let mut bb = bad_budget;
            if c == OpClass::Valid {
                s2.apply(&op);
            } else {
                bb -= 1;
            }
            cur.push(op);
            self.rec(cur, s2, depth - 1, bb, queries + op.is_query() as usize, f);
            cur.pop();
        }
    }
}

/// Scripted long histories over 4 labels (60-150 updates, every supported query after every update):
/// a finite family run on every solver configuration. They reach what the depth-bounded exploration
/// cannot: dozens of retired selectors, ids far beyond the number of live arguments, every attack
/// toggled on and off, the same label removed and re-added a dozen times.
pub fn long_scripts(kind: DynKind) -> Vec<(String, Vec<Op>)> {
    struct B {
        ops: Vec<Op>,
        s: RefState,
        kind: DynKind,
        five: bool,
    }
    impl B {
        fn up(&mut self, op: Op) {
            assert_eq!(self.s.classify(&op), OpClass::Valid, "harness: script step {:?} is not a valid update", op);
            self.s.apply(&op);
            self.ops.push(op);
            for a in 0..(if self.five { 5u8 } else { 4 }) {
                if !self.s.has_arg(a) {
                    continue;
                }
                for skeptical in [false, true] {
                    let supported = if skeptical { self.kind.ds_sem().is_some() } else { self.kind.dc_sem().is_some() };
                    if supported {
                        self.ops.push(Op::Query { skeptical, arg: a, cert: true });
                    }
                }
            }
        }
        fn new(kind: DynKind) -> B {
            B { ops: vec![], s: RefState::new(), kind, five: false }
        }
    }
    let mut out = vec![];
    // every attack switched on (row order), then off (stride order)
    let mut b = B::new(kind);
    for a in 0..4 {
        b.up(Op::NewArg(a));
    }
    for k in 0..16u8 {
        b.up(Op::NewAtt(k / 4, k % 4));
    }
    for k in 0..16u8 {
        let j = (k * 5 + 3) % 16;
        b.up(Op::RemAtt(j / 4, j % 4));
    }
    out.push(("toggle_all".to_string(), b.ops));
    // the same label removed and re-added, ring attacks restored, a self-attack on odd rounds
    let mut b = B::new(kind);
    for a in 0..4 {
        b.up(Op::NewArg(a));
    }
    for a in 0..4u8 {
        b.up(Op::NewAtt(a, (a + 1) % 4));
    }
    for r in 0..12u8 {
        let a = r % 4;
        b.up(Op::RemArg(a));
        b.up(Op::NewArg(a));
        b.up(Op::NewAtt(a, (a + 1) % 4));
        b.up(Op::NewAtt((a + 3) % 4, a));
        if r % 2 == 1 {
            b.up(Op::NewAtt(a, a));
        }
    }
    out.push(("churn".to_string(), b.ops));
    // grow and shrink: arguments added one by one attacking all earlier ones (and back on even cycles)
    let mut b = B::new(kind);
    for cycle in 0..4u8 {
        for a in 0..4u8 {
            b.up(Op::NewArg(a));
            for e in 0..a {
                b.up(Op::NewAtt(a, e));
                if cycle % 2 == 0 {
                    b.up(Op::NewAtt(e, a));
                }
            }
        }
        for k in 0..4u8 {
            let a = if cycle % 2 == 0 { 3 - k } else { (k + cycle) % 4 };
            b.up(Op::RemArg(a));
        }
    }
    out.push(("grow_shrink".to_string(), b.ops));
    // direction flips between every pair, three rounds, on top of a 4-ring
    let mut b = B::new(kind);
    for a in 0..4 {
        b.up(Op::NewArg(a));
    }
    for _round in 0..3 {
        for a in 0..4u8 {
            for c in a + 1..4 {
                b.up(Op::NewAtt(a, c));
                b.up(Op::RemAtt(a, c));
                b.up(Op::NewAtt(c, a));
                b.up(Op::NewAtt(a, c));
                b.up(Op::RemAtt(c, a));
                b.up(Op::RemAtt(a, c));
            }
        }
    }
    out.push(("flip".to_string(), b.ops));
    // irregular histories over FIVE labels: a fixed linear-congruential walk chooses, at every step, one
    // update among those valid in the current state (three walks with different multipliers); part of
    // the finite scripted family, not a sample of anything
    for (wi, (mul, add)) in [(37u64, 11u64), (53, 29), (101, 7)].into_iter().enumerate() {
        let mut b = B::new(kind);
        b.five = true;
        let mut x: u64 = 1 + wi as u64;
        for _ in 0..90 {
            let mut cands: Vec<Op> = vec![];
            for a in 0..5u8 {
                cands.push(Op::NewArg(a));
                cands.push(Op::RemArg(a));
                for c in 0..5u8 {
                    cands.push(Op::NewAtt(a, c));
                    cands.push(Op::NewAtt(a, c)); // additions twice as likely as removals: the framework stays populated
                    cands.push(Op::RemAtt(a, c));
                }
            }
            cands.retain(|op| b.s.classify(op) == OpClass::Valid && !(matches!(op, Op::RemArg(_)) && b.s.args.count_ones() <= 2));
            x = (x * mul + add) % 1_000_003;
            let op = cands[(x % cands.len() as u64) as usize];
            b.up(op);
        }
        out.push((format!("walk5_{}", wi), b.ops));
    }
    out
}

/// canonical construction history of a graph over label indices (optionally with a remove/re-add
/// cycle first so that ids are sparse and selectors retired)
pub fn construction_history(g: &Graph, sparse: bool) -> Vec<Op> {
    let mut ops = vec![];
    if sparse && g.n > 0 {
        ops.push(Op::NewArg(0));
        if g.n > 1 {
            ops.push(Op::NewArg(1));
            ops.push(Op::NewAtt(0, 1));
            ops.push(Op::RemArg(1));
        }
        ops.push(Op::RemArg(0));
    }
    for a in 0..g.n {
        ops.push(Op::NewArg(a as u8));
    }
    for &(a, b) in &g.att {
        ops.push(Op::NewAtt(a as u8, b as u8));
    }
    ops
}
