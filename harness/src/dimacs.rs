//! Strict DIMACS CNF parser (instance side) and strict SAT-competition reply parser (answer side).

#[derive(Debug, Clone, Default)]
pub struct DimacsReport {
    pub header_vars: Option<usize>,
    pub header_clauses: Option<usize>,
    pub clauses: Vec<Vec<i32>>,
    pub max_var: usize,
    pub problems: Vec<String>,
    pub bytes: usize,
}

impl DimacsReport {
    pub fn wellformed(&self) -> bool {
        self.problems.is_empty()
    }
}

/// Parse a DIMACS CNF instance strictly: header first (comments allowed before), exact clause
/// count, every variable <= header count, every clause terminated by 0, nothing after the last 0.
pub fn parse_dimacs(text: &[u8]) -> DimacsReport {
    let mut rep = DimacsReport { bytes: text.len(), ..Default::default() };
    let s = match std::str::from_utf8(text) {
        Ok(s) => s,
        Err(_) => {
            rep.problems.push("instance is not valid UTF-8".into());
            return rep;
        }
    };
    if s.is_empty() {
        rep.problems.push("empty instance".into());
        return rep;
    }
    if !s.ends_with('\n') {
        rep.problems.push("last line not terminated by a newline".into());
    }
    let mut cur: Vec<i32> = vec![];
    for (ln, line) in s.lines().enumerate() {
        let t = line.trim();
        if t.starts_with('c') && rep.header_vars.is_none() {
            continue;
        }
        if rep.header_vars.is_none() {
            let w: Vec<&str> = t.split_whitespace().collect();
            if w.len() == 4 && w[0] == "p" && w[1] == "cnf" {
                match (w[2].parse::<usize>(), w[3].parse::<usize>()) {
                    (Ok(v), Ok(c)) => {
                        rep.header_vars = Some(v);
                        rep.header_clauses = Some(c);
                    }
                    _ => {
                        rep.problems.push(format!("line {}: malformed header {:?}", ln + 1, t));
                        rep.header_vars = Some(0);
                        rep.header_clauses = Some(0);
                    }
                }
            } else {
                rep.problems.push(format!("line {}: expected header, got {:?}", ln + 1, t));
                rep.header_vars = Some(0);
                rep.header_clauses = Some(0);
            }
            continue;
        }
        if t.starts_with('c') {
            continue;
        }
        for tok in t.split_whitespace() {
            match tok.parse::<i32>() {
                Ok(0) => {
                    rep.clauses.push(std::mem::take(&mut cur));
                }
                Ok(l) => {
                    rep.max_var = rep.max_var.max(l.unsigned_abs() as usize);
                    cur.push(l);
                }
                Err(_) => rep.problems.push(format!("line {}: token {:?} is not a literal", ln + 1, tok)),
            }
        }
        if !cur.is_empty() {
            rep.problems.push(format!("line {}: clause not terminated by 0 on its line", ln + 1));
            // keep accumulating (multi-line clauses are legal DIMACS but crustabri never writes them)
        }
    }
    if !cur.is_empty() {
        rep.problems.push("last clause not terminated by 0".into());
    }
    match (rep.header_vars, rep.header_clauses) {
        (Some(v), Some(c)) => {
            if rep.max_var > v {
                rep.problems.push(format!("variable {} exceeds the header's variable count {}", rep.max_var, v));
            }
            if rep.clauses.len() != c {
                rep.problems.push(format!("header announces {} clauses, instance has {}", c, rep.clauses.len()));
            }
        }
        _ => rep.problems.push("missing header".into()),
    }
    rep
}

// ---------------------------------------------------------------------------------------------

#[derive(Debug, Clone, PartialEq, Eq)]
pub enum StrictReply {
    /// well-formed SAT reply with a terminated model: values by variable (1-based index - 1)
    Sat(Vec<Option<bool>>),
    /// well-formed UNSAT reply
    Unsat,
    /// no verdict can be read from this reply: must not be reported as a result
    Undecided(String),
    /// the format leaves the meaning open: either outcome accepted
    Unspecified(String),
}

/// Strict parser of the SAT-competition output format for an instance with `n_vars` variables.
/// The zones are those of DESIGN.md section 4 C16.2.
pub fn parse_reply_strict(text: &[u8], n_vars: usize) -> StrictReply {
    let s = match std::str::from_utf8(text) {
        Ok(s) => s,
        Err(_) => return StrictReply::Undecided("reply is not UTF-8".into()),
    };
    let mut status: Option<bool> = None;
    let mut n_status = 0;
    let mut values: Vec<Option<bool>> = vec![None; n_vars];
    let mut model_started = false;
    let mut model_terminated = false;
    let mut model_before_status = false;
    let mut unspecified: Option<String> = None;
    let mut bad: Option<String> = None;
    for line in s.lines() {
        if line == "s SATISFIABLE" {
            n_status += 1;
            status = Some(true);
        } else if line == "s UNSATISFIABLE" {
            n_status += 1;
            status = Some(false);
        } else if line.starts_with("s ") {
            // e.g. "s UNKNOWN"
            bad.get_or_insert(format!("status line {:?} carries no verdict", line));
            n_status += 1;
        } else if line == "v" || line.starts_with("v ") {
            if status.is_none() {
                model_before_status = true;
            }
            for tok in line.split_ascii_whitespace().skip(1) {
                if model_terminated {
                    unspecified.get_or_insert("tokens after the terminating 0".into());
                    continue;
                }
                match tok.parse::<isize>() {
                    Ok(0) => model_terminated = true,
                    Ok(l) => {
                        model_started = true;
                        let v = l.unsigned_abs();
                        if v > n_vars {
                            bad.get_or_insert(format!("variable {} out of range", v));
                        } else {
                            let val = Some(l > 0);
                            if values[v - 1].is_some() && values[v - 1] != val {
                                unspecified.get_or_insert("contradictory literals".into());
                            }
                            values[v - 1] = val;
                        }
                    }
                    Err(_) => {
                        bad.get_or_insert(format!("token {:?} is not a literal", tok));
                    }
                }
            }
        } else if line == "c" || line.starts_with("c ") || line.is_empty() {
            // comment / blank
        } else {
            bad.get_or_insert(format!("unexpected line {:?}", line));
        }
    }
    if let Some(b) = bad {
        return StrictReply::Undecided(b);
    }
    if n_status == 0 {
        return StrictReply::Undecided("no status line".into());
    }
    if n_status > 1 {
        return StrictReply::Undecided("several status lines".into());
    }
    match status {
        Some(false) => {
            if model_started || model_terminated {
                StrictReply::Unspecified("UNSAT with a v line".into())
            } else {
                StrictReply::Unsat
            }
        }
        Some(true) => {
            if !model_terminated {
                return StrictReply::Undecided("model missing or not terminated by 0".into());
            }
            if model_before_status {
                return StrictReply::Unspecified("model given before the status line".into());
            }
            if let Some(u) = unspecified {
                return StrictReply::Unspecified(u);
            }
            if values.iter().any(|v| v.is_none()) {
                return StrictReply::Unspecified("model does not mention every variable".into());
            }
            let _ = model_started;
            StrictReply::Sat(values)
        }
        None => StrictReply::Undecided("no verdict".into()),
    }
}
