//! E1: `ChoiceSat`, a controlled SAT oracle implementing crustabri's public `SatSolver` trait, and
//! the deviation-bounded stateless explorer of the tree of all oracle behaviours.

use crate::dpll::{self, Clause};
use crustabri::sat::{
    Assignment, CadicalSolver, Literal, SatSolver, SatSolverFactoryFn, SolvingListener, SolvingResult,
};
use std::cell::RefCell;
use std::panic::{catch_unwind, AssertUnwindSafe};
use std::rc::Rc;

// ---------------------------------------------------------------------------------------------
// panic capture

thread_local! {
    static FAULT_FLAG: RefCell<bool> = RefCell::new(false);
    static LAST_PANIC: RefCell<Option<String>> = RefCell::new(None);
    static WANT_BACKTRACE: RefCell<bool> = RefCell::new(false);
    static LAST_BACKTRACE: RefCell<Option<String>> = RefCell::new(None);
}

/// Install a process-wide panic hook that records message and location in a thread-local instead of
/// printing. Call once at start-up.
pub fn install_quiet_panic_hook() {
    std::panic::set_hook(Box::new(|info| {
        let msg = if let Some(s) = info.payload().downcast_ref::<&str>() {
            s.to_string()
        } else if let Some(s) = info.payload().downcast_ref::<String>() {
            s.clone()
        } else {
            "<non-string panic payload>".to_string()
        };
        let loc = info
            .location()
            .map(|l| format!("{}:{}", l.file(), l.line()))
            .unwrap_or_default();
        LAST_PANIC.with(|p| *p.borrow_mut() = Some(format!("{} @ {}", msg, loc)));
        if WANT_BACKTRACE.with(|w| *w.borrow()) {
            let bt = std::backtrace::Backtrace::force_capture();
            LAST_BACKTRACE.with(|b| *b.borrow_mut() = Some(format!("{}", bt)));
        }
    }));
}

/// true when a fault (Unknown) was handed out on this thread since the last call
pub fn take_fault_flag() -> bool {
    FAULT_FLAG.with(|f| std::mem::replace(&mut *f.borrow_mut(), false))
}

pub fn set_want_backtrace(b: bool) {
    WANT_BACKTRACE.with(|w| *w.borrow_mut() = b);
}

pub fn take_last_backtrace() -> Option<String> {
    LAST_BACKTRACE.with(|b| b.borrow_mut().take())
}

pub fn take_last_panic() -> Option<String> {
    LAST_PANIC.with(|p| p.borrow_mut().take())
}

/// Run `f`, turning a panic into Err(message @ location).
pub fn catch<O>(f: impl FnOnce() -> O) -> Result<O, String> {
    take_last_panic();
    let _mem = crate::mem::Guard::enter();
    match catch_unwind(AssertUnwindSafe(f)) {
        Ok(o) => Ok(o),
        Err(_) => Err(take_last_panic().unwrap_or_else(|| "<panic without message>".to_string())),
    }
}

// ---------------------------------------------------------------------------------------------

#[derive(Clone, Copy, Debug, PartialEq, Eq, Hash)]
pub enum FvPolicy {
    /// variables occurring in no clause / assumption are reported false
    False,
    /// ... reported true
    True,
    /// ... reported false, except trailing ones (above every occurring variable) left unassigned,
    /// which is what CadicalSolver does for reserved-but-unused variables
    TrailingNone,
}

impl FvPolicy {
    pub fn name(self) -> &'static str {
        match self {
            FvPolicy::False => "false",
            FvPolicy::True => "true",
            FvPolicy::TrailingNone => "trailing-none",
        }
    }
}

#[derive(Clone, Debug)]
pub struct CallRec {
    pub solver: usize,
    pub n_models: usize,
    pub n_alts: usize,
    pub taken: usize,
    pub fault: bool,
    pub n_assumptions: usize,
    /// variables true in the model handed to the code (only when keep_models)
    pub true_vars: Option<Vec<u32>>,
}

pub struct Ctl {
    pub prefix: Vec<usize>,
    pub expect_models: Vec<usize>,
    pub calls: Vec<CallRec>,
    pub n_solvers: usize,
    pub faults: bool,
    pub fv: FvPolicy,
    pub cap_alts: usize,
    pub call_limit: usize,
    pub keep_models: bool,
    pub alt_capped: bool,
    pub divergence: Option<String>,
    pub call_limit_hit: bool,
    /// per solver object: number of solve calls
    pub calls_per_solver: Vec<usize>,
}

impl Ctl {
    pub fn new(prefix: Vec<usize>, expect_models: Vec<usize>, cfg: &ExploreCfg) -> Self {
        Ctl {
            prefix,
            expect_models,
            calls: vec![],
            n_solvers: 0,
            faults: cfg.faults,
            fv: cfg.fv,
            cap_alts: cfg.cap_alts,
            call_limit: cfg.call_limit,
            keep_models: cfg.keep_models,
            alt_capped: false,
            divergence: None,
            call_limit_hit: false,
            calls_per_solver: vec![],
        }
    }
}

pub const DIVERGENCE_MARK: &str = "CVX_DIVERGENCE";
pub const CALL_LIMIT_MARK: &str = "CVX_CALL_LIMIT";

pub struct ChoiceSat {
    id: usize,
    ctl: Rc<RefCell<Ctl>>,
    clauses: Vec<Clause>,
    reserved: usize,
    max_var: usize,
}

impl ChoiceSat {
    pub fn new(ctl: Rc<RefCell<Ctl>>) -> Self {
        let id = {
            let mut c = ctl.borrow_mut();
            c.n_solvers += 1;
            c.calls_per_solver.push(0);
            c.n_solvers - 1
        };
        ChoiceSat { id, ctl, clauses: vec![], reserved: 0, max_var: 0 }
    }
}

pub fn factory_for(ctl: &Rc<RefCell<Ctl>>) -> Box<SatSolverFactoryFn> {
    let ctl = Rc::clone(ctl);
    Box::new(move || Box::new(ChoiceSat::new(Rc::clone(&ctl))))
}

/// Build a crustabri `Assignment` holding exactly `values` (its constructor is crate-private):
/// a throw-away CadicalSolver receives one unit clause per assigned variable and `reserve` for
/// trailing unassigned ones. The result is read back and compared.
pub fn fabricate(values: &[Option<bool>]) -> Assignment {
    let mut s = CadicalSolver::default();
    let mut last_some = 0;
    for (i, v) in values.iter().enumerate() {
        if let Some(b) = v {
            assert_eq!(last_some, i, "fabricate: interior unassigned variable");
            last_some = i + 1;
            let l = (i + 1) as isize;
            s.add_clause(vec![Literal::from(if *b { l } else { -l })]);
        }
    }
    s.reserve(values.len());
    match s.solve() {
        SolvingResult::Satisfiable(a) => {
            let back: Vec<Option<bool>> = a.iter().map(|(_, v)| v).collect();
            assert_eq!(back, values, "fabricate: read-back differs");
            a
        }
        _ => panic!("fabricate: unit clauses not satisfiable"),
    }
}

impl SatSolver for ChoiceSat {
    fn add_clause(&mut self, cl: Vec<Literal>) {
        let c: Clause = cl.iter().map(|l| isize::from(*l) as i32).collect();
        for &l in &c {
            self.max_var = self.max_var.max(l.unsigned_abs() as usize);
        }
        self.clauses.push(c);
    }

    fn solve(&mut self) -> SolvingResult {
        self.solve_under_assumptions(&[])
    }

    fn solve_under_assumptions(&mut self, assumptions: &[Literal]) -> SolvingResult {
        let assum: Vec<i32> = assumptions.iter().map(|l| isize::from(*l) as i32).collect();
        for &l in &assum {
            self.max_var = self.max_var.max(l.unsigned_abs() as usize);
        }
        let mut ctl = self.ctl.borrow_mut();
        let call_idx = ctl.calls.len();
        if call_idx >= ctl.call_limit {
            ctl.call_limit_hit = true;
            drop(ctl);
            panic!("{}", CALL_LIMIT_MARK);
        }
        ctl.calls_per_solver[self.id] += 1;
        let vars = dpll::occurring_vars(&self.clauses, &assum);
        let model_cap = if ctl.cap_alts == usize::MAX { usize::MAX } else { ctl.cap_alts * 64 };
        let (mut models, capped) = dpll::all_models(&self.clauses, &assum, &vars, model_cap);
        if capped {
            ctl.alt_capped = true;
        }
        if models.len() > ctl.cap_alts {
            // evenly spaced selection, always containing the first model
            ctl.alt_capped = true;
            let k = ctl.cap_alts;
            let n = models.len();
            let picked: Vec<Vec<bool>> = (0..k).map(|i| models[i * n / k].clone()).collect();
            models = picked;
        }
        let n_models = models.len();
        let n_alts = n_models.max(1) + ctl.faults as usize;
        let taken = if call_idx < ctl.prefix.len() { ctl.prefix[call_idx] } else { 0 };
        if taken >= n_alts {
            ctl.divergence = Some(format!(
                "replay divergence at call {}: choice {} but only {} alternatives",
                call_idx, taken, n_alts
            ));
            drop(ctl);
            panic!("{}", DIVERGENCE_MARK);
        }
        if call_idx < ctl.expect_models.len() && ctl.expect_models[call_idx] != n_models {
            ctl.divergence = Some(format!(
                "replay divergence at call {}: {} models, recorded {}",
                call_idx, n_models, ctl.expect_models[call_idx]
            ));
            drop(ctl);
            panic!("{}", DIVERGENCE_MARK);
        }
        let fault = ctl.faults && taken == n_alts - 1;
        let mut rec = CallRec {
            solver: self.id,
            n_models,
            n_alts,
            taken,
            fault,
            n_assumptions: assum.len(),
            true_vars: None,
        };
        if fault {
            ctl.calls.push(rec);
            FAULT_FLAG.with(|f| *f.borrow_mut() = true);
            return SolvingResult::Unknown;
        }
        if n_models == 0 {
            ctl.calls.push(rec);
            return SolvingResult::Unsatisfiable;
        }
        let model = &models[taken];
        let n_vars = self.max_var.max(self.reserved);
        let max_occ = vars.last().cloned().unwrap_or(0) as usize;
        let mut values: Vec<Option<bool>> = (1..=n_vars)
            .map(|v| match ctl.fv {
                FvPolicy::False => Some(false),
                FvPolicy::True => Some(true),
                FvPolicy::TrailingNone => {
                    if v > max_occ {
                        None
                    } else {
                        Some(false)
                    }
                }
            })
            .collect();
        for (k, &v) in vars.iter().enumerate() {
            values[v as usize - 1] = Some(model[k]);
        }
        if ctl.keep_models {
            rec.true_vars = Some(
                vars.iter()
                    .zip(model.iter())
                    .filter(|(_, b)| **b)
                    .map(|(v, _)| *v)
                    .collect(),
            );
        }
        ctl.calls.push(rec);
        drop(ctl);
        SolvingResult::Satisfiable(fabricate(&values))
    }

    fn n_vars(&self) -> usize {
        self.max_var.max(self.reserved)
    }

    fn add_listener(&mut self, _listener: Box<dyn SolvingListener>) {}

    fn reserve(&mut self, new_max_id: usize) {
        self.reserved = self.reserved.max(new_max_id);
    }
}

// ---------------------------------------------------------------------------------------------
// explorer

#[derive(Clone, Debug)]
pub struct ExploreCfg {
    /// maximal number of non-default model choices per execution; None = complete tree
    pub dev_bound: Option<usize>,
    /// every SAT call additionally has the alternative "Unknown" (at most one per execution)
    pub faults: bool,
    pub fv: FvPolicy,
    /// maximal number of model alternatives offered per SAT call
    pub cap_alts: usize,
    /// maximal number of executions per exploration
    pub max_execs: u64,
    /// an execution making more SAT calls than this is aborted (divergence guard)
    pub call_limit: usize,
    pub keep_models: bool,
    /// set by the visitor to end the exploration of this case early (e.g. after its first violation)
    pub stop: StopFlag,
}

/// a flag that is not shared between clones of a configuration
#[derive(Debug, Default)]
pub struct StopFlag(std::sync::atomic::AtomicBool);

impl Clone for StopFlag {
    fn clone(&self) -> Self {
        StopFlag::default()
    }
}

impl StopFlag {
    pub fn set(&self, v: bool) {
        self.0.store(v, std::sync::atomic::Ordering::Relaxed)
    }
    pub fn get(&self) -> bool {
        self.0.load(std::sync::atomic::Ordering::Relaxed)
    }
}

/// wall-clock budget of the whole run: explorations started after it return at once (flagged as
/// capped); set by the driver from the tier
pub static DEADLINE_EPOCH_S: std::sync::atomic::AtomicU64 = std::sync::atomic::AtomicU64::new(u64::MAX);

pub fn past_deadline() -> bool {
    let d = DEADLINE_EPOCH_S.load(std::sync::atomic::Ordering::Relaxed);
    d != u64::MAX && std::time::SystemTime::now().duration_since(std::time::UNIX_EPOCH).map(|t| t.as_secs() > d).unwrap_or(false)
}

pub fn set_deadline_in(secs: u64) {
    let now = std::time::SystemTime::now().duration_since(std::time::UNIX_EPOCH).map(|t| t.as_secs()).unwrap_or(0);
    DEADLINE_EPOCH_S.store(now + secs, std::sync::atomic::Ordering::Relaxed);
}

impl Default for ExploreCfg {
    fn default() -> Self {
        ExploreCfg {
            dev_bound: None,
            faults: false,
            fv: FvPolicy::False,
            cap_alts: 64,
            max_execs: 20_000,
            call_limit: 10_000,
            keep_models: false,
            stop: StopFlag::default(),
        }
    }
}

#[derive(Clone, Debug, Default)]
pub struct ExploreStats {
    pub execs: u64,
    pub fault_execs: u64,
    pub nodes: u64,
    pub edges: u64,
    pub max_alts: usize,
    pub max_calls: usize,
    pub choice_points: u64,
    pub alt_capped: bool,
    pub exec_capped: bool,
}

impl ExploreStats {
    pub fn add(&mut self, o: &ExploreStats) {
        self.execs += o.execs;
        self.fault_execs += o.fault_execs;
        self.nodes += o.nodes;
        self.edges += o.edges;
        self.max_alts = self.max_alts.max(o.max_alts);
        self.max_calls = self.max_calls.max(o.max_calls);
        self.choice_points += o.choice_points;
        self.alt_capped |= o.alt_capped;
        self.exec_capped |= o.exec_capped;
    }
}

/// One complete execution of the implementation under one oracle behaviour.
pub struct Exec<'a, O> {
    pub choices: Vec<usize>,
    pub calls: &'a [CallRec],
    pub result: &'a Result<O, String>,
    pub faulted: bool,
    pub call_limit_hit: bool,
    pub calls_per_solver: &'a [usize],
}

/// Machinery error (never a verdict).
#[derive(Debug)]
pub struct MachineryError(pub String);

/// Explore the tree of oracle behaviours of `run`. `visit` is called on every complete execution.
pub fn explore<O>(
    cfg: &ExploreCfg,
    run: &mut dyn FnMut(Box<SatSolverFactoryFn>) -> O,
    visit: &mut dyn FnMut(&Exec<O>),
) -> Result<ExploreStats, MachineryError> {
    let mut stats = ExploreStats::default();
    let mut stack: Vec<(Vec<usize>, Vec<usize>)> = vec![(vec![], vec![])];
    while let Some((prefix, expect)) = stack.pop() {
        if stats.execs >= cfg.max_execs || cfg.stop.get() || past_deadline() {
            stats.exec_capped = true;
            break;
        }
        let l = prefix.len();
        let ctl = Rc::new(RefCell::new(Ctl::new(prefix, expect, cfg)));
        let factory = factory_for(&ctl);
        let result = catch(|| run(factory));
        let ctl = ctl.borrow();
        if let Some(d) = &ctl.divergence {
            return Err(MachineryError(d.clone()));
        }
        if ctl.calls.len() < l {
            return Err(MachineryError(format!(
                "replay divergence: execution made {} calls, prefix has {}",
                ctl.calls.len(),
                l
            )));
        }
        let faulted = ctl.calls.iter().any(|c| c.fault);
        stats.execs += 1;
        if faulted {
            stats.fault_execs += 1;
        }
        stats.alt_capped |= ctl.alt_capped;
        stats.max_calls = stats.max_calls.max(ctl.calls.len());
        if l == 0 {
            stats.nodes += ctl.calls.len() as u64;
            stats.edges += ctl.calls.len() as u64;
        } else {
            stats.nodes += (ctl.calls.len() - l) as u64;
            stats.edges += (ctl.calls.len() - l + 1) as u64;
        }
        let choices: Vec<usize> = ctl.calls.iter().map(|c| c.taken).collect();
        visit(&Exec {
            choices: choices.clone(),
            calls: &ctl.calls,
            result: &result,
            faulted,
            call_limit_hit: ctl.call_limit_hit,
            calls_per_solver: &ctl.calls_per_solver,
        });
        if faulted {
            continue;
        }
        // expand alternatives at the calls this execution discovered
        let mut devs = choices[..l].iter().filter(|&&c| c != 0).count();
        for i in l..ctl.calls.len() {
            let c = &ctl.calls[i];
            stats.max_alts = stats.max_alts.max(c.n_models);
            if c.n_models >= 2 {
                stats.choice_points += 1;
            }
            for alt in 1..c.n_alts {
                let is_fault = ctl.faults && alt == c.n_alts - 1;
                if !is_fault {
                    if let Some(d) = cfg.dev_bound {
                        if devs + 1 > d {
                            continue;
                        }
                    }
                }
                let mut p: Vec<usize> = choices[..i].to_vec();
                p.push(alt);
                let e: Vec<usize> = ctl.calls[..=i].iter().map(|c| c.n_models).collect();
                stack.push((p, e));
            }
            if choices[i] != 0 {
                devs += 1;
            }
        }
    }
    Ok(stats)
}

/// Replay one recorded choice vector (no exploration).
pub fn replay<O>(
    cfg: &ExploreCfg,
    choices: &[usize],
    run: &mut dyn FnMut(Box<SatSolverFactoryFn>) -> O,
) -> (Result<O, String>, Vec<CallRec>, Option<String>) {
    let ctl = Rc::new(RefCell::new(Ctl::new(choices.to_vec(), vec![], cfg)));
    let factory = factory_for(&ctl);
    let result = catch(|| run(factory));
    let c = ctl.borrow();
    (result, c.calls.clone(), c.divergence.clone())
}
