//! Stand-in external SAT program. Options are plain `key=value` words (no leading hyphens):
//!   log=<path>      append one JSON record per call (strict DIMACS verdict on the instance received)
//!   cnt=<path>      process-wide call counter file (for fail=...@k)
//!   pad=<N>         N bytes of comment lines before the answer
//!   prefer=min|max  which model is reported (lexicographically smallest / largest)
//!   vwidth=<W>      literals per `v` line (default 8)
//!   reply=<path>    print the file's bytes verbatim instead of solving (echo-file mode)
//!   replyhex=<hex>  print these bytes verbatim instead of solving
//!   fail=<kind>@<k> misbehave at the k-th call (1-based; k=0: every call):
//!                   exit-silent | status-only | truncate-zero | truncate-token | truncate-mid |
//!                   garbage-line | two-status | var-out-of-range | crash | unknown-status |
//!                   c-garbage | bare-v
//!   behav=<b>       readall (default) | writefirst (write the whole reply before reading stdin) |
//!                   interleave (alternate reading a chunk and writing a chunk) |
//!                   partial-exit (write half the reply, then exit without reading) | exit-at-once |
//!                   noread (write the reply, never read stdin)
//!   mark=<path>     created when the failure requested by fail= was actually emitted
//!   errpad=<N>      write N bytes to stderr first
//!   capout=<path>   write the stdout pipe capacity (F_GETPIPE_SZ) to this file
use cvx::dimacs::parse_dimacs;
use cvx::dpll;
use std::io::{Read, Write};

fn opt<'a>(args: &'a [String], key: &str) -> Option<&'a str> {
    let p = format!("{}=", key);
    args.iter().find_map(|a| a.strip_prefix(p.as_str()))
}

fn bump_counter(path: Option<&str>) -> usize {
    match path {
        None => 1,
        Some(p) => {
            let n: usize = std::fs::read_to_string(p).ok().and_then(|s| s.trim().parse().ok()).unwrap_or(0) + 1;
            let _ = std::fs::write(p, format!("{}", n));
            n
        }
    }
}

fn main() {
    let args: Vec<String> = std::env::args().skip(1).collect();
    // errpad=<N>: N bytes of diagnostics on stderr before anything else (a third stream the caller
    // must not let fill up)
    if let Some(n) = opt(&args, "errpad").and_then(|x| x.parse::<usize>().ok()) {
        let line = b"c diagnostic noise on the standard error stream ............\n";
        let mut e = std::io::stderr();
        let mut left = n;
        while left > 0 {
            let k = left.min(line.len());
            if e.write_all(&line[..k]).is_err() {
                break;
            }
            left -= k;
        }
        let _ = e.flush();
    }
    let behav = opt(&args, "behav").unwrap_or("readall");
    let call = bump_counter(opt(&args, "cnt"));
    if let Some(p) = opt(&args, "capout") {
        let sz = unsafe { libc::fcntl(1, libc::F_GETPIPE_SZ) };
        let sz_in = unsafe { libc::fcntl(0, libc::F_GETPIPE_SZ) };
        let _ = std::fs::write(p, format!("{} {}", sz, sz_in));
    }
    if behav == "exit-at-once" {
        std::process::exit(0);
    }
    let fail = opt(&args, "fail").and_then(|f| {
        let mut it = f.split('@');
        let kind = it.next()?.to_string();
        let k: usize = it.next().and_then(|x| x.parse().ok()).unwrap_or(0);
        Some((kind, k))
    });
    let active_fail: Option<String> = match &fail {
        Some((kind, k)) if *k == 0 || *k == call => Some(kind.clone()),
        _ => None,
    };
    let stdout = std::io::stdout();
    let mut out = stdout.lock();
    let pad: usize = opt(&args, "pad").and_then(|x| x.parse().ok()).unwrap_or(0);
    let vwidth: usize = opt(&args, "vwidth").and_then(|x| x.parse().ok()).unwrap_or(8).max(1);

    // behaviours that produce the reply without (or before) reading stdin need a canned reply
    let canned = |out: &mut dyn Write| {
        write_padding(out, pad);
        let _ = out.write_all(b"s UNSATISFIABLE\n");
        let _ = out.flush();
    };
    match behav {
        "noread" => {
            canned(&mut out);
            std::process::exit(0);
        }
        "writefirst" => {
            canned(&mut out);
            let mut sink = Vec::new();
            let _ = std::io::stdin().read_to_end(&mut sink);
            log_call(&args, call, &sink, "writefirst");
            std::process::exit(0);
        }
        "partial-exit" => {
            write_padding(&mut out, pad / 2);
            let _ = out.flush();
            std::process::exit(0);
        }
        _ => {}
    }
    let mut input = Vec::new();
    if behav == "interleave" {
        // alternate: read up to 4096 bytes, write one chunk of padding
        let mut stdin = std::io::stdin();
        let mut buf = [0u8; 4096];
        let mut written = 0usize;
        loop {
            let n = stdin.read(&mut buf).unwrap_or(0);
            if n == 0 {
                break;
            }
            input.extend_from_slice(&buf[..n]);
            if written < pad {
                let k = (pad - written).min(4096);
                write_padding(&mut out, k);
                let _ = out.flush();
                written += k;
            }
        }
        if written < pad {
            write_padding(&mut out, pad - written);
        }
    } else {
        let _ = std::io::stdin().read_to_end(&mut input);
        write_padding(&mut out, pad);
    }
    let rep = parse_dimacs(&input);
    log_call(&args, call, &input, if rep.wellformed() { "ok" } else { "malformed" });
    if let Some(p) = opt(&args, "reply") {
        let bytes = std::fs::read(p).unwrap_or_default();
        let _ = out.write_all(&bytes);
        let _ = out.flush();
        return;
    }
    if let Some(h) = opt(&args, "replyhex") {
        let bytes: Vec<u8> = (0..h.len() / 2).filter_map(|i| u8::from_str_radix(&h[2 * i..2 * i + 2], 16).ok()).collect();
        let _ = out.write_all(&bytes);
        let _ = out.flush();
        return;
    }
    let fired = |args: &[String]| {
        if let Some(m) = opt(args, "mark") {
            let _ = std::fs::write(m, b"fired");
        }
    };
    if let Some(kind) = &active_fail {
        if matches!(kind.as_str(), "exit-silent" | "crash" | "garbage-line" | "unknown-status" | "c-garbage" | "bare-v") {
            fired(&args);
        }
        match kind.as_str() {
            "exit-silent" => std::process::exit(0),
            "crash" => {
                let _ = out.flush();
                unsafe { libc::abort() };
            }
            "garbage-line" => {
                let _ = out.write_all(b"Segmentation fault (core dumped)\n");
                let _ = out.flush();
                return;
            }
            "c-garbage" => {
                let _ = out.write_all(b"caught signal 11, dumping core\n");
                let _ = out.flush();
                return;
            }
            "bare-v" => {
                let _ = out.write_all(b"s SATISFIABLE\nv\n");
                let _ = out.flush();
                return;
            }
            "unknown-status" => {
                let _ = out.write_all(b"s UNKNOWN\n");
                let _ = out.flush();
                return;
            }
            _ => {}
        }
    }
    // solve
    let nv = rep.header_vars.unwrap_or(0).max(rep.max_var);
    let vars = dpll::occurring_vars(&rep.clauses, &[]);
    // prefer=min (default): lexicographically smallest model; prefer=max: the largest one
    let prefer_max = opt(&args, "prefer") == Some("max");
    let (mut models, _) = dpll::all_models(&rep.clauses, &[], &vars, if prefer_max { 1 << 16 } else { 1 });
    if prefer_max && models.len() > 1 {
        let last = models.pop().unwrap();
        models = vec![last];
    }
    if models.is_empty() {
        let _ = out.write_all(b"s UNSATISFIABLE\n");
        let _ = out.flush();
        return;
    }
    let mut vals = vec![false; nv];
    for (k, &v) in vars.iter().enumerate() {
        vals[v as usize - 1] = models[0][k];
    }
    if active_fail.is_some() {
        // the remaining failure kinds corrupt a SAT reply: they fire only here
        fired(&args);
    }
    let mut text = String::from("s SATISFIABLE\n");
    let lits: Vec<String> = vals.iter().enumerate().map(|(i, b)| if *b { format!("{}", i + 1) } else { format!("-{}", i + 1) }).collect();
    let mut model_lines: Vec<String> = lits.chunks(vwidth).map(|c| format!("v {}", c.join(" "))).collect();
    if model_lines.is_empty() {
        model_lines.push("v".to_string());
    }
    let last = model_lines.len() - 1;
    model_lines[last].push_str(" 0");
    let model_text = model_lines.join("\n") + "\n";
    match active_fail.as_deref() {
        Some("status-only") => {}
        Some("truncate-zero") => {
            // drop the terminating " 0"
            let t = model_text.trim_end_matches('\n');
            let t = t.strip_suffix(" 0").unwrap_or(t);
            text.push_str(t);
            text.push('\n');
        }
        Some("truncate-token") => {
            // cut the model at a token boundary in the middle, no terminator, no newline
            let toks: Vec<&str> = model_text.split(' ').collect();
            let keep = (toks.len() / 2).max(1);
            text.push_str(&toks[..keep].join(" "));
        }
        Some("truncate-mid") => {
            // cut inside the text of the reply (possibly inside a token), no newline
            let cut = model_text.len() / 2;
            text.push_str(&model_text[..cut.max(1)]);
        }
        Some("two-status") => {
            text.push_str(&model_text);
            text.push_str("s UNSATISFIABLE\n");
        }
        Some("var-out-of-range") => {
            text.push_str(&format!("v {} 0\n", nv + 5));
        }
        _ => text.push_str(&model_text),
    }
    let _ = out.write_all(text.as_bytes());
    let _ = out.flush();
}

fn write_padding(out: &mut dyn Write, n: usize) {
    // comment lines of 64 bytes ("c " + 61 x + "\n")
    let line = format!("c {}\n", "x".repeat(61));
    let mut left = n;
    while left >= line.len() {
        if out.write_all(line.as_bytes()).is_err() {
            std::process::exit(0);
        }
        left -= line.len();
    }
    if left >= 2 {
        let l = format!("c{}\n", " ".repeat(left - 2));
        let _ = out.write_all(l.as_bytes());
    } else if left == 1 {
        let _ = out.write_all(b"\n");
    }
}

fn log_call(args: &[String], call: usize, input: &[u8], verdict: &str) {
    if let Some(p) = opt(args, "log") {
        let rep = parse_dimacs(input);
        let rec = serde_json::json!({
            "call": call, "verdict": verdict, "bytes": input.len(),
            "header_vars": rep.header_vars, "header_clauses": rep.header_clauses,
            "max_var": rep.max_var, "n_clauses": rep.clauses.len(), "problems": rep.problems,
        });
        if let Ok(mut f) = std::fs::OpenOptions::new().create(true).append(true).open(p) {
            let _ = writeln!(f, "{}", rec);
        }
    }
}
