fn main(){}
