use cvx::report::Tier;

#[global_allocator]
static ALLOC: cvx::mem::Counting = cvx::mem::Counting;

fn main() {
    // anyhow captures a backtrace per error when RUST_BACKTRACE is set (global lock, very slow)
    std::env::set_var("RUST_LIB_BACKTRACE", "0");
    let args: Vec<String> = std::env::args().collect();
    if args.len() < 2 {
        eprintln!("usage: cvx <property|selfcheck|replay> [--tier quick|thorough] [--replay file]");
        std::process::exit(2);
    }
    let mut tier = match std::env::var("VERIF_TIER").ok().as_deref() {
        Some("thorough") => Tier::Thorough,
        _ => Tier::Quick,
    };
    let mut replay: Option<String> = None;
    let mut i = 2;
    while i < args.len() {
        match args[i].as_str() {
            "--tier" => {
                tier = if args.get(i + 1).map(|s| s.as_str()) == Some("thorough") { Tier::Thorough } else { Tier::Quick };
                i += 1;
            }
            "--replay" => {
                replay = args.get(i + 1).cloned();
                i += 1;
            }
            _ => {}
        }
        i += 1;
    }
    cvx::choicesat::install_quiet_panic_hook();
    cvx::mem::init(&args[1], tier);
    // wall-clock budget: explorations stop (flagged as capped) once it is used up
    cvx::choicesat::set_deadline_in(std::env::var("CVX_BUDGET_S").ok().and_then(|x| x.parse().ok()).unwrap_or(if tier == Tier::Thorough { 3 * 3600 } else { 15 * 60 }));
    if args[1] == "c16-scenario" {
        let pad: usize = args.get(3).and_then(|x| x.parse().ok()).unwrap_or(0);
        let big = args.get(4).map(|x| x == "1").unwrap_or(false);
        let errpad: usize = args.get(5).and_then(|x| x.parse().ok()).unwrap_or(0);
        std::process::exit(cvx::checks::c16_pipes::scenario_main_err(args.get(2).map(|s| s.as_str()).unwrap_or("readall"), pad, big, errpad));
    }
    // self-checks on every invocation
    match cvx::dpll::self_check() {
        Ok(_) => {}
        Err(e) => {
            eprintln!("MACHINERY-ERROR: {}", e);
            std::process::exit(2);
        }
    }
    match cvx::refmodel::self_check() {
        Ok(_) => {}
        Err(e) => {
            eprintln!("MACHINERY-ERROR: {}", e);
            std::process::exit(2);
        }
    }
    let code = match args[1].as_str() {
        "selfcheck" => 0,
        "explore" => cvx::replay::explore_case(replay.as_deref().expect("--replay <case file>")),
        "replay" => match &replay {
            Some(p) => cvx::replay::run(p),
            None => {
                eprintln!("--replay <file> required");
                2
            }
        },
        p @ ("C01" | "C02" | "C03" | "C04") => cvx::checks::static_checks::run(p, tier),
        "C07" => cvx::checks::static_checks::run_c07(tier),
        "C18" => cvx::checks::c18::run(tier),
        "C11" => cvx::checks::c11::run(tier),
        "C05" => cvx::checks::c05::run_check(tier),
        "C06" => cvx::checks::c06::run(tier),
        "C16" => cvx::checks::c16::run(tier),
        "C15" => cvx::checks::c15::run(tier),
        "C14" => cvx::checks::c14::run(tier),
        "C13" => cvx::checks::c13::run(tier),
        "C10" => cvx::checks::c10::run(tier),
        "C19" => cvx::checks::c19::run(tier),
        "C12" => cvx::checks::c12::run(tier),
        "C08" => cvx::checks::dyn_checks::run_c08(tier),
        "C09" => cvx::checks::dyn_checks::run_c09(tier),
        "C17" => cvx::checks::c17::run(tier),
        other => {
            eprintln!("unknown check {}", other);
            2
        }
    };
    std::process::exit(code);
}
