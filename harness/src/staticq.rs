//! Running one query of the static solvers (dispatch as in `crustabri solve`) and judging the
//! observed outcome against the reference model.

use crate::refmodel::{mask_to_vec, RefAnswers, Sem};
use crate::universe::Built;
use crustabri::aa::Argument;
use crustabri::encodings::{
    aux_var_constraints_encoder, exp_constraints_encoder, ConstraintsEncoder, HybridCompleteConstraintsEncoder,
};
use crustabri::sat::{CadicalSolver, SatSolverFactoryFn};
use crustabri::solvers::{
    CompleteSemanticsSolver, CredulousAcceptanceComputer, GroundedSemanticsSolver, IdealSemanticsSolver,
    PreferredSemanticsSolver, SemiStableSemanticsSolver, SingleExtensionComputer, SkepticalAcceptanceComputer,
    StableSemanticsSolver, StageSemanticsSolver,
};
use crustabri::utils::LabelType;
use serde_json::{json, Value};

#[derive(Clone, Copy, Debug, PartialEq, Eq, Hash, PartialOrd, Ord)]
pub enum Enc {
    /// the solver's `new_with_sat_solver_factory` (library default encoder)
    LibDefault,
    AuxCF,
    AuxAdm,
    AuxCO,
    ExpCF,
    ExpCO,
    Hybrid,
}

impl Enc {
    pub fn name(self) -> &'static str {
        match self {
            Enc::LibDefault => "lib_default",
            Enc::AuxCF => "aux_var_cf",
            Enc::AuxAdm => "aux_var_adm",
            Enc::AuxCO => "aux_var_co",
            Enc::ExpCF => "exp_cf",
            Enc::ExpCO => "exp_co",
            Enc::Hybrid => "hybrid",
        }
    }
    pub fn from_name(s: &str) -> Option<Enc> {
        [Enc::LibDefault, Enc::AuxCF, Enc::AuxAdm, Enc::AuxCO, Enc::ExpCF, Enc::ExpCO, Enc::Hybrid]
            .into_iter()
            .find(|e| e.name() == s)
    }
    /// value of the CLI option `--encoding` selecting this encoder (None: option absent)
    pub fn cli_value(self) -> Option<&'static str> {
        match self {
            Enc::LibDefault => None,
            Enc::AuxCF | Enc::AuxAdm | Enc::AuxCO => Some("aux_var"),
            Enc::ExpCF | Enc::ExpCO => Some("exp"),
            Enc::Hybrid => Some("hybrid"),
        }
    }
}

pub fn make_encoder<T: LabelType>(e: Enc) -> Option<Box<dyn ConstraintsEncoder<T>>> {
    match e {
        Enc::LibDefault => None,
        Enc::AuxCF => Some(Box::new(aux_var_constraints_encoder::new_for_conflict_freeness())),
        Enc::AuxAdm => Some(Box::new(aux_var_constraints_encoder::new_for_admissibility())),
        Enc::AuxCO => Some(Box::new(aux_var_constraints_encoder::new_for_complete_semantics())),
        Enc::ExpCF => Some(Box::new(exp_constraints_encoder::new_for_conflict_freeness())),
        Enc::ExpCO => Some(Box::new(exp_constraints_encoder::new_for_complete_semantics())),
        Enc::Hybrid => Some(Box::<HybridCompleteConstraintsEncoder>::default()),
    }
}

#[derive(Clone, Copy, Debug, PartialEq, Eq, Hash, PartialOrd, Ord)]
pub enum QKind {
    SE,
    DC,
    DS,
}

impl QKind {
    pub fn name(self) -> &'static str {
        match self {
            QKind::SE => "SE",
            QKind::DC => "DC",
            QKind::DS => "DS",
        }
    }
}

/// The encoders `solve_command::create_encoder` can select for a problem, plus the library
/// default when `with_lib_default`.
pub fn encoder_menu(kind: QKind, sem: Sem, with_lib_default: bool) -> Vec<Enc> {
    let uses_sat = match (kind, sem) {
        (_, Sem::GR) => false,
        (QKind::SE, Sem::CO) | (QKind::DS, Sem::CO) => false,
        _ => true,
    };
    if !uses_sat || sem == Sem::ST {
        return vec![Enc::LibDefault];
    }
    let mut v = match (kind, sem) {
        (_, Sem::STG) => vec![Enc::AuxCF, Enc::ExpCF],
        (QKind::SE, Sem::PR) => vec![Enc::AuxAdm, Enc::ExpCO, Enc::Hybrid],
        _ => vec![Enc::AuxCO, Enc::ExpCO, Enc::Hybrid],
    };
    if with_lib_default {
        v.insert(0, Enc::LibDefault);
    }
    v
}

#[derive(Clone, Debug, PartialEq, Eq, Hash)]
pub struct Query {
    pub kind: QKind,
    pub sem: Sem,
    /// graph indices of the queried arguments (empty for SE)
    pub args: Vec<usize>,
    pub cert: bool,
    pub enc: Enc,
}

impl Query {
    pub fn to_json(&self) -> Value {
        json!({"kind": self.kind.name(), "sem": self.sem.name(), "args": self.args, "cert": self.cert, "enc": self.enc.name()})
    }
    pub fn from_json(v: &Value) -> Query {
        let kind = match v["kind"].as_str().unwrap() {
            "SE" => QKind::SE,
            "DC" => QKind::DC,
            _ => QKind::DS,
        };
        let sem = crate::refmodel::ALL_SEMS
            .iter()
            .cloned()
            .find(|s| s.name() == v["sem"].as_str().unwrap())
            .unwrap();
        Query {
            kind,
            sem,
            args: v["args"].as_array().unwrap().iter().map(|x| x.as_u64().unwrap() as usize).collect(),
            cert: v["cert"].as_bool().unwrap(),
            enc: Enc::from_name(v["enc"].as_str().unwrap()).unwrap(),
        }
    }
    pub fn problem(&self) -> String {
        format!("{}-{}", self.kind.name(), self.sem.name())
    }
}

/// A returned argument list turned into a mask of graph indices, or a description of why it is
/// not a set of the caller's own arguments.
pub type SetObs = Result<u32, String>;

pub fn observe_set<T: LabelType>(b: &Built<T>, v: &[&Argument<T>]) -> SetObs {
    let mut mask = 0u32;
    for a in v {
        let idx = b
            .index_of(a.label())
            .ok_or_else(|| format!("returned argument with unknown label {}", a.label()))?;
        let own = b
            .af
            .argument_set()
            .get_argument(a.label())
            .map_err(|_| format!("label {} not in the framework", a.label()))?;
        if own.id() != a.id() {
            return Err(format!("argument {} is returned with id {}, the framework's argument has id {}", a.label(), a.id(), own.id()));
        }
        if mask >> idx & 1 == 1 {
            return Err(format!("argument {} listed twice", a.label()));
        }
        mask |= 1 << idx;
    }
    Ok(mask)
}

#[derive(Clone, Debug, PartialEq, Eq, Hash)]
pub enum Out {
    Ext(Option<SetObs>),
    Status(bool),
    StatusCert(bool, Option<SetObs>),
}

impl Out {
    pub fn status(&self) -> Option<bool> {
        match self {
            Out::Ext(e) => Some(e.is_some()),
            Out::Status(b) => Some(*b),
            Out::StatusCert(b, _) => Some(*b),
        }
    }
    pub fn describe(&self) -> String {
        let set = |s: &SetObs| match s {
            Ok(m) => format!("{:?}", mask_to_vec(*m)),
            Err(e) => format!("<{}>", e),
        };
        match self {
            Out::Ext(None) => "no extension".into(),
            Out::Ext(Some(s)) => format!("extension {}", set(s)),
            Out::Status(b) => format!("{}", if *b { "YES" } else { "NO" }),
            Out::StatusCert(b, None) => format!("{} without certificate", if *b { "YES" } else { "NO" }),
            Out::StatusCert(b, Some(s)) => format!("{} with certificate {}", if *b { "YES" } else { "NO" }, set(s)),
        }
    }
}

/// CaDiCaL behind a call counter: a query that keeps calling the solver (a diverging search) is
/// turned into a panic after LIMIT calls on one solver object instead of hanging the check
pub struct Limited<S: crustabri::sat::SatSolver> {
    pub inner: S,
    pub calls: usize,
    pub limit: usize,
    /// literals received so far (the embedded solver allocates outside the Rust allocator, so the
    /// memory guard cannot see a runaway encoding: it is stopped here instead)
    pub literals: usize,
}

/// literals one solver object may receive (the largest legitimate object of any check stays far below)
pub const LITERAL_LIMIT: usize = 50_000_000;

pub type LimitedCadical = Limited<CadicalSolver>;

pub const CADICAL_CALL_LIMIT: usize = 20_000;

impl<S: crustabri::sat::SatSolver> crustabri::sat::SatSolver for Limited<S> {
    fn add_clause(&mut self, cl: Vec<crustabri::sat::Literal>) {
        self.literals += cl.len() + 1;
        if self.literals > LITERAL_LIMIT {
            panic!("{}: more than {} literals added to one solver object (runaway encoding)", crate::choicesat::CALL_LIMIT_MARK, LITERAL_LIMIT);
        }
        self.inner.add_clause(cl)
    }
    fn solve(&mut self) -> crustabri::sat::SolvingResult {
        self.solve_under_assumptions(&[])
    }
    fn solve_under_assumptions(&mut self, a: &[crustabri::sat::Literal]) -> crustabri::sat::SolvingResult {
        self.calls += 1;
        if self.calls > self.limit {
            panic!("{}: more than {} SAT calls on one solver object (diverging search)", crate::choicesat::CALL_LIMIT_MARK, self.limit);
        }
        self.inner.solve_under_assumptions(a)
    }
    fn n_vars(&self) -> usize {
        self.inner.n_vars()
    }
    fn add_listener(&mut self, l: Box<dyn crustabri::sat::SolvingListener>) {
        self.inner.add_listener(l)
    }
    fn reserve(&mut self, n: usize) {
        self.inner.reserve(n)
    }
}

pub fn cadical_factory() -> Box<SatSolverFactoryFn> {
    Box::new(|| Box::new(Limited { inner: CadicalSolver::default(), calls: 0, limit: CADICAL_CALL_LIMIT, literals: 0 }))
}

/// Solver objects, dispatched exactly as `crustabri solve` does.
pub enum AnySolver<'a, T: LabelType> {
    Gr(GroundedSemanticsSolver<'a, T>),
    Co(CompleteSemanticsSolver<'a, T>),
    Pr(PreferredSemanticsSolver<'a, T>),
    St(StableSemanticsSolver<'a, T>),
    Sst(SemiStableSemanticsSolver<'a, T>),
    Stg(StageSemanticsSolver<'a, T>),
    Id(IdealSemanticsSolver<'a, T>),
}

pub fn make_solver<'a, T: LabelType>(
    b: &'a Built<T>,
    kind: QKind,
    sem: Sem,
    enc: Enc,
    factory: Box<SatSolverFactoryFn>,
) -> AnySolver<'a, T> {
    let af = &b.af;
    let e = make_encoder::<T>(enc);
    macro_rules! mk {
        ($ty:ident) => {
            match e {
                Some(e) => $ty::new_with_sat_solver_factory_and_constraints_encoder(af, factory, e),
                None => $ty::new_with_sat_solver_factory(af, factory),
            }
        };
    }
    match (kind, sem) {
        (_, Sem::GR) | (QKind::SE, Sem::CO) | (QKind::DS, Sem::CO) => AnySolver::Gr(GroundedSemanticsSolver::new(af)),
        (QKind::DC, Sem::CO) | (QKind::DC, Sem::PR) => AnySolver::Co(mk!(CompleteSemanticsSolver)),
        (_, Sem::PR) => AnySolver::Pr(mk!(PreferredSemanticsSolver)),
        (_, Sem::ST) => AnySolver::St(StableSemanticsSolver::new_with_sat_solver_factory(af, factory)),
        (_, Sem::SST) => AnySolver::Sst(mk!(SemiStableSemanticsSolver)),
        (_, Sem::STG) => AnySolver::Stg(mk!(StageSemanticsSolver)),
        (_, Sem::ID) => AnySolver::Id(mk!(IdealSemanticsSolver)),
    }
}

impl<'a, T: LabelType> AnySolver<'a, T> {
    pub fn query(&mut self, b: &Built<T>, kind: QKind, args: &[usize], cert: bool) -> Out {
        let labels: Vec<&T> = args.iter().map(|&i| &b.labels[i]).collect();
        macro_rules! se {
            ($s:expr) => {
                Out::Ext($s.compute_one_extension().map(|v| observe_set(b, &v)))
            };
        }
        macro_rules! dc {
            ($s:expr) => {
                if cert {
                    let (st, c) = $s.are_credulously_accepted_with_certificate(&labels);
                    Out::StatusCert(st, c.map(|v| observe_set(b, &v)))
                } else {
                    Out::Status($s.are_credulously_accepted(&labels))
                }
            };
        }
        macro_rules! ds {
            ($s:expr) => {
                if cert {
                    let (st, c) = $s.are_skeptically_accepted_with_certificate(&labels);
                    Out::StatusCert(st, c.map(|v| observe_set(b, &v)))
                } else {
                    Out::Status($s.are_skeptically_accepted(&labels))
                }
            };
        }
        match (kind, self) {
            (QKind::SE, AnySolver::Gr(s)) => se!(s),
            (QKind::SE, AnySolver::Pr(s)) => se!(s),
            (QKind::SE, AnySolver::St(s)) => se!(s),
            (QKind::SE, AnySolver::Sst(s)) => se!(s),
            (QKind::SE, AnySolver::Stg(s)) => se!(s),
            (QKind::SE, AnySolver::Id(s)) => se!(s),
            (QKind::DC, AnySolver::Gr(s)) => dc!(s),
            (QKind::DC, AnySolver::Co(s)) => dc!(s),
            (QKind::DC, AnySolver::St(s)) => dc!(s),
            (QKind::DC, AnySolver::Sst(s)) => dc!(s),
            (QKind::DC, AnySolver::Stg(s)) => dc!(s),
            (QKind::DC, AnySolver::Id(s)) => dc!(s),
            (QKind::DS, AnySolver::Gr(s)) => ds!(s),
            (QKind::DS, AnySolver::Pr(s)) => ds!(s),
            (QKind::DS, AnySolver::St(s)) => ds!(s),
            (QKind::DS, AnySolver::Sst(s)) => ds!(s),
            (QKind::DS, AnySolver::Stg(s)) => ds!(s),
            (QKind::DS, AnySolver::Id(s)) => ds!(s),
            _ => panic!("harness: query kind not supported by this solver"),
        }
    }
}

pub fn run_query<T: LabelType>(b: &Built<T>, q: &Query, factory: Box<SatSolverFactoryFn>) -> Out {
    // only used when the caller registered no (more precise) description of its case
    let note = || {
        let att: Vec<String> = b.af.iter_attacks().map(|a| format!("{}->{}", a.attacker().label(), a.attacked().label())).collect();
        format!("{} {:?} cert={} enc={} on a framework with {} arguments, attacks (by label) [{}]", q.problem(), q.args, q.cert, q.enc.name(), b.af.n_arguments(), att.join(","))
    };
    crate::mem::with_default_note(&note, || {
        let mut s = make_solver(b, q.kind, q.sem, q.enc, factory);
        s.query(b, q.kind, &q.args, q.cert)
    })
}

#[derive(Clone, Copy, Debug, PartialEq, Eq)]
pub enum Aspect {
    /// SE answer (C01)
    Extension,
    /// DC / DS status (C02 / C03, C07 for lists)
    Status,
    /// certificate presence / validity (C04)
    Certificate,
}

fn args_mask(args: &[usize]) -> u32 {
    args.iter().fold(0, |m, &a| m | 1 << a)
}

/// Semantics whose family decides the status / validates the certificate of a query.
fn status_sem(kind: QKind, sem: Sem) -> Sem {
    match (kind, sem) {
        // DC-PR is answered through CO (same status); DS-CO through GR (same status)
        _ => sem,
    }
}

fn cert_sem(kind: QKind, sem: Sem) -> Sem {
    match (kind, sem) {
        (QKind::DC, Sem::PR) => Sem::CO, // a complete extension is a sufficient witness
        _ => sem,
    }
}

pub fn expected_status(ra: &RefAnswers, q: &Query) -> bool {
    let m = args_mask(&q.args);
    match q.kind {
        QKind::SE => !ra.ext(q.sem).is_empty(),
        QKind::DC => ra.credulous(status_sem(q.kind, q.sem), m),
        QKind::DS => ra.skeptical(status_sem(q.kind, q.sem), m),
    }
}

/// All deviations of an outcome from what the semantics dictate.
pub fn judge(ra: &RefAnswers, q: &Query, out: &Out) -> Vec<(Aspect, String)> {
    let mut errs = vec![];
    let m = args_mask(&q.args);
    match (q.kind, out) {
        (QKind::SE, Out::Ext(e)) => {
            let fam = ra.ext(q.sem);
            match e {
                None => {
                    if !fam.is_empty() {
                        errs.push((Aspect::Extension, format!("no extension reported but {} exist", fam.len())));
                    }
                }
                Some(Err(why)) => errs.push((Aspect::Extension, why.clone())),
                Some(Ok(s)) => {
                    if !fam.contains(s) {
                        errs.push((
                            Aspect::Extension,
                            format!(
                                "returned set {:?} is not a {} extension (extensions: {:?})",
                                mask_to_vec(*s),
                                q.sem.name(),
                                fam.iter().map(|x| mask_to_vec(*x)).collect::<Vec<_>>()
                            ),
                        ));
                    }
                }
            }
        }
        (QKind::DC, o) | (QKind::DS, o) => {
            let exp = expected_status(ra, q);
            let (st, cert) = match o {
                Out::Status(b) => (*b, None),
                Out::StatusCert(b, c) => (*b, Some(c)),
                Out::Ext(_) => {
                    errs.push((Aspect::Status, "extension returned for an acceptance query".into()));
                    return errs;
                }
            };
            if st != exp {
                errs.push((
                    Aspect::Status,
                    format!("status {} but the semantics dictate {}", if st { "YES" } else { "NO" }, if exp { "YES" } else { "NO" }),
                ));
            }
            if let Some(c) = cert {
                // certificate promised exactly for credulous YES and skeptical NO (judged against the
                // status actually returned)
                let promised = (q.kind == QKind::DC) == st;
                match (promised, c) {
                    (true, None) => errs.push((Aspect::Certificate, "certificate promised but missing".into())),
                    (false, Some(_)) => errs.push((Aspect::Certificate, "certificate given where none is promised".into())),
                    (false, None) => {}
                    (true, Some(Err(why))) => errs.push((Aspect::Certificate, why.clone())),
                    (true, Some(Ok(s))) => {
                        let fam = ra.ext(cert_sem(q.kind, q.sem));
                        if !fam.contains(s) {
                            errs.push((
                                Aspect::Certificate,
                                format!("certificate {:?} is not a {} extension", mask_to_vec(*s), cert_sem(q.kind, q.sem).name()),
                            ));
                        } else if q.kind == QKind::DC && s & m == 0 {
                            errs.push((Aspect::Certificate, format!("certificate {:?} contains none of the queried arguments", mask_to_vec(*s))));
                        } else if q.kind == QKind::DS && s & m != 0 {
                            errs.push((Aspect::Certificate, format!("certificate {:?} contains a queried argument", mask_to_vec(*s))));
                        }
                    }
                }
            }
        }
        (QKind::SE, _) => errs.push((Aspect::Extension, "status returned for SE".into())),
    }
    errs
}
