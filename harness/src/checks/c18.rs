//! C18: every query terminates within the stated number of SAT calls per connected component,
//! under every oracle behaviour (worst case over the complete choice tree).

use crate::checks::static_checks::{s_family, small_universe};
use crate::choicesat::{explore, Exec, ExploreCfg, ExploreStats, FvPolicy};
use crate::refmodel::{Graph, Ref, Sem};
use crate::report::{Report, Tier, Violation};
use crate::staticq::{encoder_menu, make_encoder, run_query, Enc, Out, QKind, Query};
use crate::sweep::{case_json, named};
use crate::universe::{build_usize, Presentation};
use crustabri::aa::{AAFramework, ArgumentSet};
use rayon::prelude::*;
use serde_json::json;
use std::collections::BTreeMap;

#[derive(Clone, Copy, PartialEq, Eq, Debug)]
enum BoundKind {
    Pr,
    Id,
    Range,
    Two,
}

fn bound_kind(kind: QKind, sem: Sem) -> Option<BoundKind> {
    match (kind, sem) {
        (_, Sem::GR) | (QKind::SE, Sem::CO) | (QKind::DS, Sem::CO) => None,
        (QKind::DC, Sem::CO) | (QKind::DC, Sem::PR) | (_, Sem::ST) => Some(BoundKind::Two),
        (_, Sem::PR) => Some(BoundKind::Pr),
        (_, Sem::ID) => Some(BoundKind::Id),
        (_, Sem::SST) | (_, Sem::STG) => Some(BoundKind::Range),
    }
}

fn base_count(r: &Ref, enc: Enc) -> usize {
    match enc {
        Enc::AuxAdm => r.all_admissible().len(),
        Enc::AuxCF | Enc::ExpCF => r.all_conflict_free().len(),
        _ => r.all_complete().len(),
    }
}

/// sum over the connected components of the property's bound
fn bound_for(g: &Graph, kind: BoundKind, enc: Enc) -> usize {
    let mut total = 0;
    for comp in g.components() {
        let (cg, _) = g.induced(comp);
        let r = Ref::new(&cg);
        let base = base_count(&r, enc);
        let pr = r.preferred().len();
        total += match kind {
            BoundKind::Pr => base + pr + 1,
            BoundKind::Id => 2 * base + pr + 2,
            BoundKind::Range => (cg.n + 2) * base + 3,
            BoundKind::Two => 2,
        };
    }
    total
}

fn arg_vars(enc: Enc, n: usize) -> Vec<u32> {
    let labels: Vec<usize> = (0..n).collect();
    let af = AAFramework::new_with_argument_set(ArgumentSet::new_with_labels(&labels));
    let e = make_encoder::<usize>(enc).expect("encoder");
    af.argument_set().iter().map(|a| isize::from(e.arg_to_lit(a)).unsigned_abs() as u32).collect()
}

#[derive(Default)]
struct Acc {
    stats: ExploreStats,
    queries: u64,
    evaluations: u64,
    nontrivial: u64,
    min_slack: BTreeMap<String, i64>,
    max_calls: BTreeMap<String, usize>,
    violations: BTreeMap<String, (u64, Violation)>,
    samples: Vec<serde_json::Value>,
    machinery: Vec<String>,
}

impl Acc {
    fn merge(mut self, o: Acc) -> Acc {
        self.stats.add(&o.stats);
        self.queries += o.queries;
        self.evaluations += o.evaluations;
        self.nontrivial += o.nontrivial;
        for (k, v) in o.min_slack {
            let e = self.min_slack.entry(k).or_insert(v);
            *e = (*e).min(v);
        }
        for (k, v) in o.max_calls {
            let e = self.max_calls.entry(k).or_insert(v);
            *e = (*e).max(v);
        }
        for (k, (n, v)) in o.violations {
            let e = self.violations.entry(k).or_insert((0, v));
            e.0 += n;
        }
        for s in o.samples {
            if self.samples.len() < 4 {
                self.samples.push(s);
            }
        }
        self.machinery.extend(o.machinery);
        self
    }
}

fn check_graph(name: &str, g: &Graph, cfg_base: &ExploreCfg) -> Acc {
    check_graph_sems(name, g, cfg_base, &crate::refmodel::ALL_SEMS)
}

fn check_graph_sems(name: &str, g: &Graph, cfg_base: &ExploreCfg, sems: &[Sem]) -> Acc {
    let mut acc = Acc::default();
    let connected = g.is_connected();
    let b = build_usize(g, Presentation::Compact);
    for kind in [QKind::SE, QKind::DC, QKind::DS] {
        for &sem in sems {
            let bk = match bound_kind(kind, sem) {
                Some(b) => b,
                None => continue,
            };
            let mut menu = encoder_menu(kind, sem, false);
            if kind == QKind::DS && sem == Sem::PR {
                // library-level configuration outside the CLI menu: the skeptical preferred search on
                // the admissibility encoding (base = admissible sets), sound and covered by the bound
                menu.push(Enc::AuxAdm);
            }
            for enc in menu {
                let eff_enc = if enc == Enc::LibDefault { Enc::AuxCO } else { enc };
                let bound = bound_for(g, bk, eff_enc);
                let avars = if enc == Enc::LibDefault { vec![] } else { arg_vars(enc, g.n) };
                let arg_lists: Vec<Vec<usize>> = if kind == QKind::SE { vec![vec![]] } else { (0..g.n).map(|a| vec![a]).collect() };
                for args in arg_lists {
                    for cert in if kind == QKind::SE { vec![false] } else { vec![false, true] } {
                        let q = Query { kind, sem, args: args.clone(), cert, enc };
                        acc.queries += 1;
                        let cfg = ExploreCfg { call_limit: bound + 2, keep_models: true, ..cfg_base.clone() };
                        let mut local: Vec<Violation> = vec![];
                        let mut worst = 0usize;
                        let mut n_exec = 0u64;
                        let r = explore(
                            &cfg,
                            &mut |f| run_query(&b, &q, f),
                            &mut |e: &Exec<Out>| {
                                n_exec += 1;
                                let calls = e.calls.len();
                                worst = worst.max(calls);
                                let mk = |key: &str, msg: String| Violation {
                                    property: "C18".into(),
                                    key: format!("problem={};enc={};{}", q.problem(), q.enc.name(), key),
                                    message: format!("{} {:?} cert={} enc={} on {} ({}) choices {:?}: {}", q.problem(), q.args, q.cert, q.enc.name(), g.describe(), name, e.choices, msg),
                                    case: case_json(name, g, Presentation::Compact, &q, "choicesat", cfg.fv, &e.choices),
                                };
                                if e.call_limit_hit || calls > bound {
                                    cfg.stop.set(true);
                                    local.push(mk("symptom=bound_exceeded", format!("{} SAT calls (aborted beyond bound+1), bound {}", calls, bound)));
                                } else if let Err(p) = e.result {
                                    local.push(mk("symptom=panic", format!("panicked: {}", p)));
                                }
                                // no candidate examined twice (PR) / more than twice (ID), per solver object
                                if connected && !avars.is_empty() && (bk == BoundKind::Pr || bk == BoundKind::Id) {
                                    let mut seen: BTreeMap<(usize, Vec<u32>), usize> = BTreeMap::new();
                                    for c in e.calls.iter() {
                                        if let Some(tv) = &c.true_vars {
                                            let cand: Vec<u32> = tv.iter().cloned().filter(|v| avars.contains(v)).collect();
                                            *seen.entry((c.solver, cand)).or_insert(0) += 1;
                                        }
                                    }
                                    let limit = if bk == BoundKind::Pr { 1 } else { 2 };
                                    if let Some(((_, cand), n)) = seen.iter().find(|(_, &n)| n > limit) {
                                        local.push(mk("symptom=candidate_repeated", format!("candidate (argument variables {:?}) handed {} times to one solver object", cand, n)));
                                    }
                                }
                            },
                        );
                        match r {
                            Ok(st) => acc.stats.add(&st),
                            Err(m) => acc.machinery.push(format!("{} on {}: {}", q.problem(), g.describe(), m.0)),
                        }
                        acc.evaluations += n_exec;
                        if n_exec > 1 {
                            acc.nontrivial += 1;
                        }
                        let k = format!("{}/{}", q.problem(), q.enc.name());
                        let slack = bound as i64 - worst as i64;
                        let e = acc.min_slack.entry(k.clone()).or_insert(slack);
                        *e = (*e).min(slack);
                        let e = acc.max_calls.entry(k).or_insert(worst);
                        *e = (*e).max(worst);
                        if acc.samples.len() < 2 && n_exec > 2 {
                            acc.samples.push(json!({"graph": g.describe(), "query": q.to_json(), "bound": bound, "worst_case_calls_over_all_oracle_behaviours": worst, "executions": n_exec}));
                        }
                        for v in local {
                            let e = acc.violations.entry(v.key.clone()).or_insert((0, v));
                            e.0 += 1;
                        }
                    }
                }
            }
        }
    }
    acc
}

/// the dynamic preferred solver (one incremental SAT solver for the whole framework): a DS query on
/// a connected framework must stay within the preferred bound |CO| + |PR| + 1 under every oracle
/// behaviour
fn check_dynamic_preferred(rep: &mut Report, thorough: bool) {
    use crate::dynamic::{construction_history, run_history, DynKind, Op, StepObs};
    let graphs: Vec<Graph> = crate::universe::universe_upto(3).into_iter().filter(|g| g.n > 0 && g.is_connected()).collect();
    let cfg = ExploreCfg { dev_bound: None, fv: FvPolicy::False, max_execs: 50_000, cap_alts: 64, ..ExploreCfg::default() };
    let results: Vec<(ExploreStats, Vec<Violation>, i64)> = graphs
        .par_iter()
        .with_max_len(1)
        .map(|g| {
            let mut stats = ExploreStats::default();
            let mut viol = vec![];
            let mut min_slack = i64::MAX;
            let bound = bound_for(g, BoundKind::Pr, Enc::AuxCO);
            for sparse in [false, true] {
                if sparse && !thorough && g.n == 3 {
                    continue;
                }
                for a in 0..g.n {
                    let mut h = construction_history(g, sparse);
                    h.push(Op::Query { skeptical: true, arg: a as u8, cert: true });
                    let c = ExploreCfg { call_limit: bound + 2, ..cfg.clone() };
                    let r = explore(&c, &mut |f| run_history(DynKind::Preferred, &h, f), &mut |e: &Exec<Vec<StepObs>>| {
                        let calls = e.calls.len();
                        min_slack = min_slack.min(bound as i64 - calls as i64);
                        if e.call_limit_hit || calls > bound {
                            viol.push(Violation {
                                property: "C18".into(),
                                key: "solver=DynamicPreferredSemanticsSolver;symptom=bound_exceeded".into(),
                                message: format!("DynamicPreferredSemanticsSolver, history [{}] choices {:?}: {} SAT calls for one DS query on a connected framework, bound {}", crate::dynamic::history_str(&h), e.choices, calls, bound),
                                case: json!({"engine": "dynamic", "solver": DynKind::Preferred.name(), "history": h.iter().map(|o| o.to_json()).collect::<Vec<_>>(), "backend": "choicesat", "free_var_policy": "false", "choices": e.choices, "cap_alts": 64}),
                            });
                        }
                    });
                    if let Ok(st) = r {
                        stats.add(&st);
                    }
                }
            }
            (stats, viol, min_slack)
        })
        .collect();
    let mut total = ExploreStats::default();
    let mut slack = i64::MAX;
    for (st, v, ms) in results {
        total.add(&st);
        slack = slack.min(ms);
        for x in v {
            rep.add_violation(x);
        }
    }
    rep.states += total.nodes;
    rep.transitions += total.edges;
    rep.traces += total.execs;
    rep.evaluations += total.execs;
    rep.extra.insert(
        "space:dynamic preferred solver, DS query after building every connected framework of U(<=3) (compact and sparse ids), complete oracle tree".into(),
        json!({"graphs": graphs.len(), "executions": total.execs, "min_slack_bound_minus_calls": slack, "alternative_cap_hit": total.alt_capped}),
    );
}

pub fn run(tier: Tier) -> i32 {
    let mut rep = Report::new("C18", tier);
    let thorough = tier == Tier::Thorough;
    let mut plans: Vec<(String, Vec<(String, Graph)>, ExploreCfg)> = vec![];
    let mut pr_only: Vec<(String, Vec<(String, Graph)>, ExploreCfg)> = vec![];
    let full = ExploreCfg { dev_bound: None, fv: FvPolicy::False, max_execs: 50_000, ..ExploreCfg::default() };
    plans.push((
        "connected U(<=3), complete choice tree".into(),
        small_universe(3).into_iter().filter(|(_, g)| g.is_connected() && g.n > 0).collect(),
        full.clone(),
    ));
    plans.push((
        "U(<=2)+U(<=2) (sum of component bounds), complete choice tree".into(),
        named(crate::universe::two_component_unions(2, 2), "U2+U2"),
        full.clone(),
    ));
    let d = if thorough { 2 } else { 1 };
    plans.push((
        format!("connected members of S, D<={}", d),
        s_family().into_iter().filter(|(_, g)| g.is_connected() && g.n <= 9).collect(),
        ExploreCfg { dev_bound: Some(d), ..full.clone() },
    ));
    if !thorough {
        // the preferred searches (SE-PR, DS-PR incl. the admissibility encoder) two deviations deep on S
        pr_only.push((
            "connected members of S (<= 9 arguments), preferred problems only, D<=2".into(),
            s_family().into_iter().filter(|(_, g)| g.is_connected() && g.n <= 9).collect(),
            ExploreCfg { dev_bound: Some(2), ..full.clone() },
        ));
    }
    if !thorough {
        plans.push((
            "connected 4-argument frameworks, one per isomorphism class with <= 5 attacks, D<=1".into(),
            named(crate::universe::iso_representatives_sparse(4, 5).into_iter().filter(|g| g.is_connected()).collect(), "U4iso"),
            ExploreCfg { dev_bound: Some(1), ..full.clone() },
        ));
    }
    if thorough {
        plans.push((
            "connected U(4), D<=1".into(),
            named(crate::universe::all_graphs(4).filter(|g| g.is_connected()).collect(), "U"),
            ExploreCfg { dev_bound: Some(1), ..full.clone() },
        ));
    }
    let mut min_slack: BTreeMap<String, i64> = BTreeMap::new();
    let mut max_calls: BTreeMap<String, usize> = BTreeMap::new();
    let all: Vec<(String, Vec<(String, Graph)>, ExploreCfg, bool)> = plans.into_iter().map(|(a, b, c)| (a, b, c, false)).chain(pr_only.into_iter().map(|(a, b, c)| (a, b, c, true))).collect();
    // one pool of (plan, graph) tasks, largest graphs first: the few expensive members of S would
    // otherwise each keep one core busy at the end of their own plan
    let sems_of = |pr: bool| -> Vec<Sem> { if pr { vec![Sem::PR] } else { crate::refmodel::ALL_SEMS.to_vec() } };
    let mut tasks: Vec<(usize, usize, Sem)> = all.iter().enumerate().flat_map(|(pi, (_, gs, _, pr))| { let ss = sems_of(*pr); (0..gs.len()).flat_map(move |gi| ss.clone().into_iter().map(move |s| (pi, gi, s))) }).collect();
    tasks.sort_by_key(|&(pi, gi, _)| {
        let g = &all[pi].1[gi].1;
        std::cmp::Reverse((g.n, all[pi].2.dev_bound.unwrap_or(9), g.att.len()))
    });
    let t0 = std::time::Instant::now();
    let mut per_plan: Vec<Acc> = tasks
        .par_iter()
        .with_max_len(1)
        .map(|&(pi, gi, sem)| {
            let (_, gs, cfg, _pr) = &all[pi];
            let (n, g) = &gs[gi];
            let acc = check_graph_sems(n, g, cfg, &[sem]);
            let mut v: Vec<Option<Acc>> = (0..all.len()).map(|_| None).collect();
            v[pi] = Some(acc);
            v
        })
        .reduce(
            || (0..all.len()).map(|_| None).collect::<Vec<Option<Acc>>>(),
            |a, b| a.into_iter().zip(b.into_iter()).map(|(x, y)| match (x, y) {
                (Some(x), Some(y)) => Some(x.merge(y)),
                (x, None) => x,
                (None, y) => y,
            }).collect(),
        )
        .into_iter()
        .map(|o| o.unwrap_or_default())
        .collect();
    eprintln!("  static plans: {:.1}s", t0.elapsed().as_secs_f64());
    for (pi, (name, graphs, _cfg, _pr)) in all.iter().enumerate() {
        let acc = std::mem::take(&mut per_plan[pi]);
        rep.states += acc.stats.nodes;
        rep.transitions += acc.stats.edges;
        rep.traces += acc.stats.execs;
        rep.evaluations += acc.evaluations;
        rep.distinct_nontrivial += acc.nontrivial;
        if acc.stats.alt_capped || acc.stats.exec_capped {
            rep.exhaustive = false;
        }
        rep.extra.insert(
            format!("space:{}", name),
            json!({"graphs": graphs.len(), "queries": acc.queries, "executions": acc.stats.execs,
                   "max_alternatives": acc.stats.max_alts, "alternative_cap_hit": acc.stats.alt_capped, "execution_cap_hit": acc.stats.exec_capped}),
        );
        for (k, v) in acc.min_slack {
            let e = min_slack.entry(k).or_insert(v);
            *e = (*e).min(v);
        }
        for (k, v) in acc.max_calls {
            let e = max_calls.entry(k).or_insert(v);
            *e = (*e).max(v);
        }
        for s in acc.samples {
            rep.add_sample(s);
        }
        for (_, (n, v)) in acc.violations {
            rep.n_violations += n - 1;
            rep.add_violation(v);
        }
        rep.machinery_errors.extend(acc.machinery);
    }
    check_dynamic_preferred(&mut rep, thorough);
    rep.extra.insert("min_slack_bound_minus_worst_calls".into(), json!(min_slack));
    rep.extra.insert("max_sat_calls_observed".into(), json!(max_calls));
    rep.rule = "cases = (graph, problem, encoder, argument, certificate flag); for each the COMPLETE tree of oracle behaviours (or deviation-bounded where stated) is executed with a counting oracle that aborts at bound+2 calls; the maximum over all behaviours is compared with the property's per-component bound computed from the reference model; distinct_nontrivial = queries whose tree has more than one execution".into();
    rep.bounds = json!({"bounds": "PR<=|base|+|PR|+1, ID<=2|base|+|PR|+2, SST/STG<=(n+2)|base|+3, CO/ST<=2 per component; disconnected graphs: sum over components"});
    rep.assumptions = vec![
        "same trusted base as C01; the bound formulas are the property's own".into(),
        "for disconnected frameworks only the implied sum of per-component bounds is checked (necessary condition)".into(),
    ];
    rep.finish()
}
