//! C19: the equivalence reduction only merges arguments belonging to exactly the same complete
//! extensions; its two mappings are total and inverse at the level of classes.

use crate::choicesat::catch;
use crate::refmodel::{Graph, Ref};
use crate::report::{Report, Tier, Violation};
use crate::universe::{build_usize, universe_upto, Built, Presentation};
use crustabri::utils::EquivalencyComputer;
use rayon::prelude::*;
use serde_json::json;
use std::collections::BTreeMap;

#[derive(Default)]
struct Acc {
    graphs: u64,
    nontrivial_classes: u64,
    graphs_with_merge: u64,
    classes: u64,
    violations: BTreeMap<String, (u64, Violation)>,
    sample: Option<serde_json::Value>,
}

impl Acc {
    fn merge(mut self, o: Acc) -> Acc {
        self.graphs += o.graphs;
        self.nontrivial_classes += o.nontrivial_classes;
        self.graphs_with_merge += o.graphs_with_merge;
        self.classes += o.classes;
        for (k, (n, v)) in o.violations {
            let e = self.violations.entry(k).or_insert((0, v));
            e.0 += n;
        }
        if self.sample.is_none() {
            self.sample = o.sample;
        }
        self
    }
}

/// compact presentation with the attacks inserted in reverse order
fn build_reversed(g: &Graph) -> Built<usize> {
    use crustabri::aa::{AAFramework, ArgumentSet};
    let labels: Vec<usize> = (0..g.n).map(crate::universe::usize_label).collect();
    let mut af = AAFramework::new_with_argument_set(ArgumentSet::new_with_labels(&labels));
    for &(a, b) in g.att.iter().rev() {
        af.new_attack(&labels[a], &labels[b]).unwrap();
    }
    Built { af, labels }
}

pub fn check_graph(g: &Graph, pres: Presentation) -> Result<(Vec<Vec<usize>>, usize), (String, String)> {
    check_built_graph(g, build_usize(g, pres))
}

pub fn check_graph_reversed(g: &Graph) -> Result<(Vec<Vec<usize>>, usize), (String, String)> {
    check_built_graph(g, build_reversed(g))
}

fn check_built_graph(g: &Graph, b: Built<usize>) -> Result<(Vec<Vec<usize>>, usize), (String, String)> {
    let r = Ref::new(g);
    let co = r.all_complete();
    let sig: Vec<u64> = (0..g.n).map(|a| co.iter().enumerate().fold(0u64, |acc, (i, e)| if e >> a & 1 == 1 { acc | 1 << (i % 64) } else { acc })).collect();
    let same = |a: usize, b: usize| co.iter().all(|e| (e >> a & 1) == (e >> b & 1));
    let _ = sig;
    let res = catch(|| -> Result<(Vec<Vec<usize>>, usize), (String, String)> {
        let ec = EquivalencyComputer::new(&b.af);
        let red = ec.reduced_af();
        let mut owner: Vec<Option<usize>> = vec![None; g.n];
        let mut classes = vec![];
        for r_arg in red.argument_set().iter() {
            let members = ec.reduced_arg_to_init_args(r_arg);
            if members.is_empty() {
                return Err(("empty_class".into(), format!("reduced argument {} has an empty class", r_arg.label())));
            }
            let mut idxs = vec![];
            for m in &members {
                let i = b.index_of(m.label()).ok_or_else(|| ("unknown_member".to_string(), format!("class member {} is not an argument of the framework", m.label())))?;
                let own = b.af.argument_set().get_argument(m.label()).unwrap();
                if own.id() != m.id() {
                    return Err(("member_id".into(), format!("class member {} has id {} but the framework's argument has id {}", m.label(), m.id(), own.id())));
                }
                if let Some(o) = owner[i] {
                    return Err(("not_a_partition".into(), format!("argument {} is in classes {} and {}", m.label(), o, r_arg.id())));
                }
                owner[i] = Some(r_arg.id());
                idxs.push(i);
                let back = ec.init_to_reduced_arg(own);
                if back.id() != r_arg.id() || back.label() != r_arg.label() {
                    return Err(("mappings_not_inverse".into(), format!("init_to_reduced_arg({}) = {} (id {}), but it is a member of the class of {} (id {})", m.label(), back.label(), back.id(), r_arg.label(), r_arg.id())));
                }
            }
            if !members.iter().any(|m| m.label() == r_arg.label()) {
                return Err(("reduced_label".into(), format!("label {} of the reduced argument is not the label of a class member", r_arg.label())));
            }
            for &a in &idxs {
                for &c in &idxs {
                    if !same(a, c) {
                        return Err(("unsound_merge".into(), format!("arguments {} and {} are merged but do not belong to the same complete extensions (complete extensions: {:?})", b.labels[a], b.labels[c], co.iter().map(|e| crate::refmodel::mask_to_vec(*e)).collect::<Vec<_>>())));
                    }
                }
            }
            classes.push(idxs);
        }
        for (i, o) in owner.iter().enumerate() {
            if o.is_none() {
                return Err(("not_total".into(), format!("argument {} belongs to no class", b.labels[i])));
            }
        }
        // init_to_reduced_arg total on every argument (already exercised above for members); also
        // exercise it on every argument directly
        for a in b.af.argument_set().iter() {
            let red_arg = ec.init_to_reduced_arg(a);
            let members = ec.reduced_arg_to_init_args(red_arg);
            if !members.iter().any(|m| m.label() == a.label()) {
                return Err(("mappings_not_inverse".into(), format!("{} is not a member of the class of init_to_reduced_arg({})", a.label(), a.label())));
            }
        }
        let n_red = red.n_arguments();
        Ok((classes, n_red))
    });
    match res {
        Ok(r) => r,
        Err(p) => Err(("panic".into(), format!("EquivalencyComputer panicked: {}", p))),
    }
}

pub fn run(tier: Tier) -> i32 {
    let mut rep = Report::new("C19", tier);
    let thorough = tier == Tier::Thorough;
    let graphs: Vec<Graph> = universe_upto(4);
    let mut space = "U(<=4)".to_string();
    if thorough {
        // every labelled digraph on 5 arguments (2^25)
        space.push_str(" + all 33 554 432 labelled 5-argument digraphs");
    } else {
        // every labelled digraph on 5 arguments with at most 10 attacks (7.1 M graphs): the defects of
        // this utility depend on numbering and declaration order, so isomorphism classes are not enough
        space.push_str(" + all 7 119 516 labelled 5-argument digraphs with <= 10 attacks");
    }
    let check_one = |g: &Graph| {
            let mut acc = Acc::default();
            acc.graphs = 1;
            for (pname, pres) in [("compact", Some(Presentation::Compact)), ("dup", Some(Presentation::Dup)), ("compact_reversed_attack_order", None)] {
                let r = match pres {
                    Some(p) => check_graph(g, p),
                    None => check_graph_reversed(g),
                };
                let pres = pres.unwrap_or(Presentation::Hole);
                match r {
                    Ok((classes, _)) => {
                        acc.classes += classes.len() as u64;
                        let nt = classes.iter().filter(|c| c.len() >= 2).count() as u64;
                        if pres == Presentation::Compact {
                            acc.nontrivial_classes += nt;
                            if nt > 0 {
                                acc.graphs_with_merge += 1;
                                if acc.sample.is_none() && g.n >= 4 {
                                    acc.sample = Some(json!({"graph": g.describe(), "classes": classes}));
                                }
                            }
                        }
                    }
                    Err((what, msg)) => {
                        let key = format!("presentation={};what={}", pname, what);
                        let v = Violation {
                            property: "C19".into(),
                            key: key.clone(),
                            message: format!("{} [{}]: {}", g.describe(), pname, msg),
                            case: json!({"engine": "equivalence", "graph": g.to_json(), "presentation": pname}),
                        };
                        let e = acc.violations.entry(key).or_insert((0, v));
                        e.0 += 1;
                    }
                }
            }
            acc
        };
    let mut acc = graphs.par_iter().map(|g| check_one(g)).reduce(Acc::default, Acc::merge);
    if thorough {
        let more = (0..(1u64 << 25)).into_par_iter().map(|c| check_one(&Graph::from_code(5, c))).reduce(Acc::default, Acc::merge);
        acc = acc.merge(more);
    } else {
        let more = (0..(1u64 << 25)).into_par_iter().filter(|c| c.count_ones() <= 10).map(|c| check_one(&Graph::from_code(5, c))).reduce(Acc::default, Acc::merge);
        acc = acc.merge(more);
    }
    // 6 arguments: one framework per isomorphism class with <= 7 [8] attacks, in three numberings
    {
        let k = if thorough { 8 } else { 7 };
        let classes = crate::universe::iso_classes_augment(6, k);
        space.push_str(&format!(" + {} isomorphism classes of 6-argument digraphs with <= {} attacks x 3 numberings", classes.len(), k));
        let perms: [[usize; 6]; 3] = [[0, 1, 2, 3, 4, 5], [5, 4, 3, 2, 1, 0], [3, 4, 5, 0, 1, 2]];
        let more = classes
            .par_iter()
            .map(|g| perms.iter().map(|p| check_one(&g.permuted(&p.to_vec()))).fold(Acc::default(), Acc::merge))
            .reduce(Acc::default, Acc::merge);
        acc = acc.merge(more);
    }
    rep.states = acc.graphs * 3;
    rep.transitions = acc.classes.max(1);
    rep.traces = acc.graphs * 3;
    rep.evaluations = acc.graphs * 3;
    rep.distinct_nontrivial = acc.graphs_with_merge;
    rep.extra.insert("space".into(), json!({"description": space, "graphs": acc.graphs, "presentations": ["compact", "dup", "compact with reversed attack insertion order"], "classes_with_at_least_two_members": acc.nontrivial_classes, "graphs_with_a_merge": acc.graphs_with_merge}));
    if let Some(s) = acc.sample {
        rep.add_sample(s);
    }
    for (_, (n, v)) in acc.violations {
        rep.n_violations += n - 1;
        rep.add_violation(v);
    }
    rep.rule = "every labelled digraph with <=4 arguments and one representative per isomorphism class of sparse 5-argument digraphs, in compact and duplicate-attack presentation, through EquivalencyComputer::new; states = (graph, presentation) inputs, transitions = classes examined; every pair of merged arguments is compared on ALL complete extensions of the reference; partition, totality and inverse mappings checked; distinct_nontrivial = graphs on which at least one class has >= 2 members".into();
    rep.bounds = json!({"n": "<=4 complete, 5 sparse"});
    rep.assumptions = vec!["nothing is demanded about how coarse the partition is (soundness of merging only)".into()];
    rep.finish()
}
