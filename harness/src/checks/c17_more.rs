//! C17, dynamic-solver part: `Unknown` injected at every SAT call of every query of bounded
//! histories on the dynamic solvers. (Process-level part: c17_proc, called from here.)
use crate::choicesat::{explore, set_want_backtrace, take_fault_flag, take_last_backtrace, Exec, ExploreCfg, ExploreStats, FvPolicy};
use crate::checks::c17::site_of_backtrace;
use crate::dynamic::*;
use crate::report::{Report, Tier, Violation};
use crustabri::sat::SatSolverFactoryFn;
use rayon::prelude::*;
use serde_json::json;
use std::collections::BTreeMap;

#[derive(Clone, Debug)]
pub struct FaultObs {
    /// step at which the Unknown was handed out
    pub step: Option<usize>,
    /// what that step returned (None when it unwound)
    pub answered: Option<String>,
    pub site: Option<String>,
}

/// run a history; report where a fault was injected and whether that step still produced a value
fn run_fault_aware(kind: DynKind, ops: &[Op], factory: Box<SatSolverFactoryFn>) -> FaultObs {
    take_fault_flag();
    let mut res = FaultObs { step: None, answered: None, site: None };
    // one step at a time, so that the flag can be read after each step
    let mut sut = make_sut(kind, factory);
    for (i, op) in ops.iter().enumerate() {
        let one = std::slice::from_ref(op);
        let obs = step_on(&mut sut, one);
        if take_fault_flag() {
            res.step = Some(i);
            match &obs {
                StepObs::Panic(_) => {
                    res.site = take_last_backtrace().and_then(|bt| site_of_backtrace(&bt));
                }
                other => res.answered = Some(other.describe()),
            }
            break;
        }
        if let StepObs::Panic(_) = obs {
            break;
        }
    }
    let _ = crate::choicesat::catch(move || drop(sut));
    res
}

fn step_on(sut: &mut Box<dyn DynSut>, ops: &[Op]) -> StepObs {
    let op = &ops[0];
    let r = crate::choicesat::catch(|| match *op {
        Op::NewArg(a) => {
            sut.new_argument(LABELS[a as usize]);
            StepObs::Unit
        }
        Op::RemArg(a) => match sut.remove_argument(&LABELS[a as usize]) {
            Ok(()) => StepObs::Ok,
            Err(_) => StepObs::Err,
        },
        Op::NewAtt(a, b) => match sut.new_attack(&LABELS[a as usize], &LABELS[b as usize]) {
            Ok(()) => StepObs::Ok,
            Err(_) => StepObs::Err,
        },
        Op::RemAtt(a, b) => match sut.remove_attack(&LABELS[a as usize], &LABELS[b as usize]) {
            Ok(()) => StepObs::Ok,
            Err(_) => StepObs::Err,
        },
        Op::Query { skeptical, arg, cert } => {
            let l = &LABELS[arg as usize];
            let conv = |c: Option<Vec<&crustabri::aa::Argument<usize>>>| c.map(|v| v.iter().map(|a| (*a.label(), a.id())).collect::<Vec<_>>());
            match (skeptical, cert) {
                (false, false) => StepObs::Answer(sut.is_credulously_accepted(l), None),
                (false, true) => {
                    let (s, c) = sut.is_credulously_accepted_with_certificate(l);
                    StepObs::Answer(s, conv(c))
                }
                (true, false) => StepObs::Answer(sut.is_skeptically_accepted(l), None),
                (true, true) => {
                    let (s, c) = sut.is_skeptically_accepted_with_certificate(l);
                    StepObs::Answer(s, conv(c))
                }
            }
        }
    });
    match r {
        Ok(o) => o,
        Err(p) => StepObs::Panic(p),
    }
}

#[derive(Default)]
struct Acc {
    stats: ExploreStats,
    histories: u64,
    faults: u64,
    aborted: u64,
    sites: BTreeMap<String, u64>,
    violations: BTreeMap<String, (u64, Violation)>,
    machinery: Vec<String>,
    sample: Option<serde_json::Value>,
}

impl Acc {
    fn merge(mut self, o: Acc) -> Acc {
        self.stats.add(&o.stats);
        self.histories += o.histories;
        self.faults += o.faults;
        self.aborted += o.aborted;
        for (k, v) in o.sites {
            *self.sites.entry(k).or_insert(0) += v;
        }
        for (k, (n, v)) in o.violations {
            let e = self.violations.entry(k).or_insert((0, v));
            e.0 += n;
        }
        self.machinery.extend(o.machinery);
        if self.sample.is_none() {
            self.sample = o.sample;
        }
        self
    }
}

pub fn run_dynamic(rep: &mut Report, tier: Tier) {
    let thorough = tier == Tier::Thorough;
    let depth = if thorough { 6 } else { 5 };
    let cfg = ExploreCfg { dev_bound: Some(0), faults: true, fv: FvPolicy::False, cap_alts: 16, ..ExploreCfg::default() };
    let mut tasks: Vec<(DynKind, Vec<Op>)> = vec![];
    for kind in all_kinds() {
        let alpha = Alphabet { n_labels: 2, kind, with_unknown_label: false, nocert_queries: false, max_queries: 2, queries_only: false, updates_then_query: false, tail: 0, nodes: std::cell::Cell::new(0) };
        alpha.for_each_history(&[], 2, 0, &mut |h| tasks.push((kind, h.to_vec())));
    }
    let acc = tasks
        .par_iter()
        .with_max_len(1)
        .map(|(kind, start)| {
            let mut acc = Acc::default();
            let alpha = Alphabet { n_labels: 2, kind: *kind, with_unknown_label: false, nocert_queries: false, max_queries: 2, queries_only: false, updates_then_query: false, tail: 0, nodes: std::cell::Cell::new(0) };
            set_want_backtrace(true);
            alpha.for_each_history(start, depth - 2, 0, &mut |h| {
                if !h.last().map(|o| o.is_query()).unwrap_or(false) {
                    return; // only histories ending in a query add fault positions not seen in a prefix
                }
                acc.histories += 1;
                let mut found: Vec<(Vec<usize>, FaultObs)> = vec![];
                let r = explore(&cfg, &mut |f| run_fault_aware(*kind, h, f), &mut |e: &Exec<FaultObs>| {
                    if e.faulted {
                        if let Ok(o) = e.result {
                            found.push((e.choices.clone(), o.clone()));
                        }
                    }
                });
                match r {
                    Ok(st) => acc.stats.add(&st),
                    Err(m) => acc.machinery.push(format!("{} [{}]: {}", kind.name(), history_str(h), m.0)),
                }
                for (choices, o) in found {
                    acc.faults += 1;
                    if let Some(s) = &o.site {
                        *acc.sites.entry(s.clone()).or_insert(0) += 1;
                    }
                    match &o.answered {
                        None => acc.aborted += 1,
                        Some(desc) => {
                            let key = format!("level=library;solver={};symptom=answer_after_unknown", kind.type_name());
                            let v = Violation {
                                property: "C17".into(),
                                key: key.clone(),
                                message: format!("{} history [{}]: SAT call {} answered Unknown during step {:?} but the step returned {}", kind.name(), history_str(h), choices.len(), o.step.map(|s| s + 1), desc),
                                case: json!({"engine": "dynamic_fault", "solver": kind.name(), "history": h.iter().map(|o| o.to_json()).collect::<Vec<_>>(), "choices": choices}),
                            };
                            let e = acc.violations.entry(key).or_insert((0, v));
                            e.0 += 1;
                        }
                    }
                    if acc.sample.is_none() {
                        acc.sample = Some(json!({"solver": kind.name(), "history": history_str(h), "fault_at_call": choices.len(), "step": o.step, "site": o.site}));
                    }
                }
            });
            set_want_backtrace(false);
            acc
        })
        .reduce(Acc::default, Acc::merge);
    rep.states += acc.stats.nodes;
    rep.transitions += acc.stats.edges;
    rep.traces += acc.stats.execs;
    rep.evaluations += acc.faults;
    rep.extra.insert(
        "space:dynamic solvers, 2 labels, histories ending in a query, fault at every SAT call of the default path".into(),
        json!({"solver_configurations": all_kinds().len(), "depth": depth, "histories": acc.histories, "faults_injected": acc.faults, "faults_that_aborted_the_step": acc.aborted}),
    );
    rep.extra.insert("unwrap_model_sites_reached_by_injected_faults(dynamic part)".into(), json!(acc.sites));
    rep.distinct_nontrivial += acc.sites.len() as u64;
    if let Some(s) = acc.sample {
        rep.add_sample(s);
    }
    for (_, (n, v)) in acc.violations {
        rep.n_violations += n - 1;
        rep.add_violation(v);
    }
    rep.machinery_errors.extend(acc.machinery);
}

pub fn run_rest(rep: &mut Report, tier: Tier) {
    run_dynamic(rep, tier);
    crate::checks::c17_proc::run_process(rep, tier);
}
