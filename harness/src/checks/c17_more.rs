//! C17, dynamic-solver and process-level parts (added with the engines they need).
use crate::report::{Report, Tier};

pub fn run_rest(_rep: &mut Report, _tier: Tier) {}
