//! C13: instance readers are total and faithful. Exhaustive small-scope enumeration of inputs
//! (token strings, line sequences, single-edit corruptions of a corpus, all short byte strings),
//! judged by a three-zone oracle: must-accept (strict grammar), must-reject (the classes the
//! property lists), unspecified (no requirement except: no panic, consistent result).

use crate::choicesat::catch;
use crate::report::{Report, Tier, Violation};
use crustabri::aa::AAFramework;
use crustabri::io::{AspartixReader, Iccma23Reader, InstanceReader};
use crustabri::utils::LabelType;
use rayon::prelude::*;
use serde_json::json;
use std::collections::BTreeMap;

#[derive(Clone, Debug, PartialEq, Eq)]
pub struct Expected {
    pub labels: Vec<String>,
    /// attacks as (attacker index, attacked index), in file order (with repetitions)
    pub attacks: Vec<(usize, usize)>,
}

#[derive(Clone, Debug, PartialEq, Eq)]
pub enum Zone {
    Accept(Expected),
    Reject(&'static str),
    Unspecified(&'static str),
    /// accepting or rejecting are both fine, but an accepted framework must be this one
    /// (undecodable bytes confined to comment lines: the rest of the file must not be dropped)
    Either(Expected),
    /// accepting or rejecting are both fine, but an accepted framework must contain at least these
    /// declarations (a file with an undecodable line: the well-formed declarations of its other
    /// lines must not be silently dropped)
    AtLeast(Expected),
}

fn split_lines(s: &str) -> Vec<&str> {
    let mut v: Vec<&str> = s.split('\n').collect();
    if v.last() == Some(&"") {
        v.pop();
    }
    v
}

fn clean_tokens(line: &str) -> Option<Vec<&str>> {
    if line.is_empty() || line.starts_with(' ') || line.ends_with(' ') || line.contains("  ") {
        return None;
    }
    if !line.chars().all(|c| c == ' ' || ('!'..='~').contains(&c)) {
        return None;
    }
    Some(line.split(' ').collect())
}

fn plain_number(t: &str) -> Option<u64> {
    if t.is_empty() || !t.chars().all(|c| c.is_ascii_digit()) {
        return None;
    }
    if t.len() > 1 && t.starts_with('0') {
        return None;
    }
    t.parse().ok()
}

pub fn classify_iccma(bytes: &[u8]) -> Zone {
    let s = match std::str::from_utf8(bytes) {
        Ok(s) => s,
        Err(_) => {
            // undecodable bytes only inside comment lines: blank those comments and classify the rest
            let mut cleaned: Vec<u8> = vec![];
            let mut outside = false;
            for (i, line) in bytes.split(|b| *b == b'\n').enumerate() {
                if i > 0 {
                    cleaned.push(b'\n');
                }
                if std::str::from_utf8(line).is_ok() {
                    cleaned.extend_from_slice(line);
                } else if line.first() == Some(&b'#') {
                    cleaned.push(b'#');
                } else {
                    // an undecodable content line: drop it and require the rest not to be lost
                    if cleaned.last() == Some(&b'\n') {
                        cleaned.pop();
                    }
                    outside = true;
                }
            }
            return match (classify_iccma(&cleaned), outside) {
                (Zone::Accept(e), false) => Zone::Either(e),
                (Zone::Accept(e), true) => Zone::AtLeast(e),
                _ => Zone::Unspecified("not UTF-8"),
            };
        }
    };
    let mut n: Option<u64> = None;
    let mut blank_seen = false;
    let mut comment_after_blank = false;
    let mut attacks = vec![];
    for line in split_lines(s) {
        if line.starts_with('#') {
            if blank_seen {
                comment_after_blank = true;
            }
            continue;
        }
        if line.is_empty() {
            blank_seen = true;
            continue;
        }
        let toks = match clean_tokens(line) {
            Some(t) => t,
            // e.g. a lone CR (the second half of a CRLF line end): whether this is content is unspecified
            None => return Zone::Unspecified("irregular whitespace or characters"),
        };
        if blank_seen {
            return Zone::Reject("content after a blank line");
        }
        match n {
            None => {
                if toks.len() == 3 && toks[0] == "p" && toks[1] == "af" {
                    match plain_number(toks[2]) {
                        Some(v) if v <= 1000 => n = Some(v),
                        Some(_) => return Zone::Unspecified("huge declared size"),
                        None => match toks[2].parse::<i64>() {
                            // exotic spellings (+1, 01, -0): negative => ill-formed, otherwise unspecified
                            Ok(v) if v < 0 => return Zone::Reject("bad header"),
                            Ok(_) => return Zone::Unspecified("number spelling"),
                            Err(_) => {
                                if toks[2].chars().all(|c| c.is_ascii_digit()) {
                                    return Zone::Unspecified("number too large");
                                }
                                return Zone::Reject("bad header");
                            }
                        },
                    }
                } else {
                    return Zone::Reject("bad or missing header");
                }
            }
            Some(nn) => {
                if toks.len() != 2 {
                    return Zone::Reject("wrong arity");
                }
                let mut idx = [0usize; 2];
                for (k, t) in toks.iter().enumerate() {
                    if let Some(v) = plain_number(t) {
                        if v < 1 || v > nn {
                            return Zone::Reject("index out of range");
                        }
                        idx[k] = v as usize - 1;
                    } else if t.parse::<i64>().map(|v| v < 0).unwrap_or(false) {
                        return Zone::Reject("negative index");
                    } else if t.len() > 18 && !t.starts_with('0') && t.chars().all(|c| c.is_ascii_digit()) {
                        // a plain number too large for 64 bits is certainly beyond the declared size
                        return Zone::Reject("index out of range");
                    } else {
                        return Zone::Unspecified("token that is not a plain number");
                    }
                }
                attacks.push((idx[0], idx[1]));
            }
        }
    }
    match n {
        None => Zone::Reject("missing header"),
        Some(_) if comment_after_blank => Zone::Unspecified("comment after a blank line"),
        Some(nn) => Zone::Accept(Expected { labels: (1..=nn).map(|i| i.to_string()).collect(), attacks }),
    }
}

fn is_name(s: &str) -> bool {
    let mut cs = s.chars();
    match cs.next() {
        Some(c) if c == '_' || c.is_ascii_alphabetic() => {}
        _ => return false,
    }
    cs.all(|c| c == '_' || c.is_ascii_alphanumeric())
}

/// Some(names) when the line is `<kw>(n1,n2,...).` with every ni a strict name
fn fact_names<'a>(line: &'a str, kw: &str) -> Option<Vec<&'a str>> {
    let rest = line.strip_prefix(kw)?.strip_prefix('(')?;
    let inner = rest.strip_suffix(").")?;
    let names: Vec<&str> = inner.split(',').collect();
    if names.iter().all(|n| is_name(n)) {
        Some(names)
    } else {
        None
    }
}

pub fn classify_apx(bytes: &[u8]) -> Zone {
    let s = match std::str::from_utf8(bytes) {
        Ok(s) => s,
        Err(_) => {
            // drop the undecodable lines; if the rest is a strict file, an accepting reader must not
            // lose its declarations
            let kept: Vec<&[u8]> = bytes.split(|b| *b == b'\n').filter(|l| std::str::from_utf8(l).is_ok()).collect();
            let cleaned = kept.join(&b'\n');
            return match classify_apx(&cleaned) {
                Zone::Accept(e) => Zone::AtLeast(e),
                _ => Zone::Unspecified("not UTF-8"),
            };
        }
    };
    let mut labels: Vec<String> = vec![];
    let mut attacks: Vec<(usize, usize)> = vec![];
    let mut att_seen = false;
    for line in split_lines(s) {
        if line.is_empty() {
            continue;
        }
        if let Some(names) = fact_names(line, "arg") {
            if names.len() != 1 {
                return Zone::Reject("wrong arity");
            }
            if att_seen {
                return Zone::Reject("argument declared after an attack");
            }
            if labels.iter().any(|l| l == names[0]) {
                return Zone::Unspecified("duplicate argument declaration");
            }
            labels.push(names[0].to_string());
            continue;
        }
        if let Some(names) = fact_names(line, "att") {
            if names.len() != 2 {
                return Zone::Reject("wrong arity");
            }
            let a = labels.iter().position(|l| l == names[0]);
            let b = labels.iter().position(|l| l == names[1]);
            match (a, b) {
                (Some(a), Some(b)) => {
                    att_seen = true;
                    if attacks.contains(&(a, b)) {
                        return Zone::Unspecified("duplicate attack declaration");
                    }
                    attacks.push((a, b));
                }
                _ => return Zone::Reject("undeclared argument"),
            }
            continue;
        }
        return Zone::Unspecified("line outside the strict grammar");
    }
    Zone::Accept(Expected { labels, attacks })
}

#[derive(Clone, Copy, Debug, PartialEq, Eq, Hash, PartialOrd, Ord)]
pub enum Format {
    Iccma,
    Apx,
}

impl Format {
    pub fn name(self) -> &'static str {
        match self {
            Format::Iccma => "iccma23",
            Format::Apx => "apx",
        }
    }
}

/// internal consistency of whatever a reader returned + faithfulness in the accept zone
fn check_result<T: LabelType>(af: &AAFramework<T>, exp: Option<&Expected>, multiset: bool, at_least: bool) -> Result<(), String> {
    let n = af.n_arguments();
    let args: Vec<(String, usize)> = af.argument_set().iter().map(|a| (a.label().to_string(), a.id())).collect();
    if args.len() != n {
        return Err(format!("n_arguments() = {} but the argument set lists {}", n, args.len()));
    }
    let mut atts: Vec<(usize, usize)> = vec![];
    for a in af.iter_attacks() {
        let f = args.iter().position(|x| x.1 == a.attacker().id()).ok_or("attack from an argument that is not in the set")?;
        let t = args.iter().position(|x| x.1 == a.attacked().id()).ok_or("attack to an argument that is not in the set")?;
        atts.push((f, t));
    }
    if atts.len() != af.n_attacks() {
        return Err(format!("n_attacks() = {} but iter_attacks() yields {}", af.n_attacks(), atts.len()));
    }
    if let (Some(e), true) = (exp, at_least) {
        let got_labels: Vec<String> = args.iter().map(|a| a.0.clone()).collect();
        for l in &e.labels {
            if !got_labels.contains(l) {
                return Err(format!("accepted, but the declared argument {} of a well-formed line is missing (arguments {:?})", l, got_labels));
            }
        }
        for &(a, b) in &e.attacks {
            let fa = got_labels.iter().position(|x| x == &e.labels[a]).unwrap();
            let fb = got_labels.iter().position(|x| x == &e.labels[b]).unwrap();
            if !atts.contains(&(fa, fb)) {
                return Err(format!("accepted, but the attack {}->{} declared on a well-formed line is missing", e.labels[a], e.labels[b]));
            }
        }
        return Ok(());
    }
    if let Some(e) = exp {
        let got_labels: Vec<String> = args.iter().map(|a| a.0.clone()).collect();
        if got_labels != e.labels {
            return Err(format!("arguments {:?}, declared {:?}", got_labels, e.labels));
        }
        for (i, a) in args.iter().enumerate() {
            if a.1 != i {
                return Err(format!("argument {} has id {}, expected {} (declaration order)", a.0, a.1, i));
            }
        }
        let mut got = atts.clone();
        let mut want = e.attacks.clone();
        got.sort();
        want.sort();
        if !multiset {
            got.dedup();
            want.dedup();
        }
        if got != want {
            return Err(format!("attacks {:?}, declared {:?}", got, want));
        }
    }
    Ok(())
}

/// returns (zone tag, accepted?) or a violation (what, message)
pub fn check_input(fmt: Format, bytes: &[u8], probe_tokens: &[&str]) -> Result<(u8, bool), (String, String)> {
    let note = || format!("{} reader on input {}", fmt.name(), show(bytes));
    crate::mem::with_note(&note, || check_input_inner(fmt, bytes, probe_tokens))
}

fn check_input_inner(fmt: Format, bytes: &[u8], probe_tokens: &[&str]) -> Result<(u8, bool), (String, String)> {
    let zone = match fmt {
        Format::Iccma => classify_iccma(bytes),
        Format::Apx => classify_apx(bytes),
    };
    let exp = match &zone {
        Zone::Accept(e) | Zone::Either(e) | Zone::AtLeast(e) => Some(e.clone()),
        _ => None,
    };
    let at_least = matches!(zone, Zone::AtLeast(_));
    let res: Result<Result<bool, String>, String> = catch(|| match fmt {
        Format::Iccma => {
            let rd = Iccma23Reader::default();
            let mut b = bytes;
            match rd.read(&mut b) {
                Ok(af) => {
                    check_result(&af, exp.as_ref(), true, at_least)?;
                    if let (Some(e), false) = (&exp, at_least) {
                        for t in probe_tokens {
                            let ok = rd.read_arg_from_str(&af, t).map(|a| a.label().to_string());
                            let want = crate::checks::c13::plain_number_pub(t).filter(|v| *v >= 1 && (*v as usize) <= e.labels.len());
                            match (ok, want) {
                                (Ok(l), Some(v)) if l == v.to_string() => {}
                                (Err(_), None) => {}
                                (Ok(l), None) => {
                                    // spellings such as "+1" or "01" are unspecified
                                    if t.parse::<u64>().is_err() {
                                        return Err(format!("read_arg_from_str({:?}) accepted as {}", t, l));
                                    }
                                }
                                (Ok(l), Some(v)) => return Err(format!("read_arg_from_str({:?}) = {} expected {}", t, l, v)),
                                (Err(_), Some(v)) => return Err(format!("read_arg_from_str({:?}) rejected, expected argument {}", t, v)),
                            }
                        }
                    }
                    Ok(true)
                }
                Err(_) => Ok(false),
            }
        }
        Format::Apx => {
            let rd = AspartixReader::default();
            let mut b = bytes;
            match rd.read(&mut b) {
                Ok(af) => {
                    check_result(&af, exp.as_ref(), false, at_least)?;
                    if let (Some(e), false) = (&exp, at_least) {
                        for t in probe_tokens {
                            let ok = rd.read_arg_from_str(&af, t).is_ok();
                            let want = e.labels.iter().any(|l| l == t);
                            if ok != want {
                                return Err(format!("read_arg_from_str({:?}) ok={}, declared={}", t, ok, want));
                            }
                        }
                    }
                    Ok(true)
                }
                Err(_) => Ok(false),
            }
        }
    });
    match res {
        Err(p) => Err(("panic".into(), format!("reader panicked: {}", p))),
        Ok(Err(m)) => Err((if at_least { "declarations_dropped".into() } else if exp.is_some() { "unfaithful".into() } else { "inconsistent_result".into() }, m)),
        Ok(Ok(accepted)) => match zone {
            Zone::Accept(_) => {
                if accepted {
                    Ok((0, true))
                } else {
                    Err(("wellformed_rejected".into(), "well-formed file rejected".into()))
                }
            }
            Zone::Reject(why) => {
                if accepted {
                    Err((format!("illformed_accepted:{}", why.replace(' ', "_")), format!("ill-formed file ({}) accepted as some framework", why)))
                } else {
                    Ok((1, false))
                }
            }
            Zone::Unspecified(_) | Zone::Either(_) | Zone::AtLeast(_) => Ok((2, accepted)),
        },
    }
}

pub fn plain_number_pub(t: &str) -> Option<u64> {
    plain_number(t)
}

/// an input quoted for a message (long inputs abbreviated; the replay file holds all bytes)
fn show(bytes: &[u8]) -> String {
    let t = String::from_utf8_lossy(bytes);
    if t.chars().count() > 300 {
        format!("{:?}... [{} bytes in all]", t.chars().take(200).collect::<String>(), bytes.len())
    } else {
        format!("{:?}", t)
    }
}

#[derive(Default)]
pub struct Acc {
    pub inputs: u64,
    pub zone: [u64; 3],
    pub accepted_unspecified: u64,
    pub violations: BTreeMap<String, (u64, usize, Violation)>,
    pub sample: Vec<serde_json::Value>,
}

impl Acc {
    pub fn merge(mut self, o: Acc) -> Acc {
        self.inputs += o.inputs;
        for i in 0..3 {
            self.zone[i] += o.zone[i];
        }
        self.accepted_unspecified += o.accepted_unspecified;
        for (k, (n, len, v)) in o.violations {
            match self.violations.get_mut(&k) {
                None => {
                    self.violations.insert(k, (n, len, v));
                }
                Some(e) => {
                    e.0 += n;
                    if len < e.1 {
                        e.1 = len;
                        e.2 = v;
                    }
                }
            }
        }
        for s in o.sample {
            if self.sample.len() < 3 {
                self.sample.push(s);
            }
        }
        self
    }
    pub fn feed(&mut self, fmt: Format, gen: &str, bytes: &[u8], probes: &[&str]) {
        self.inputs += 1;
        match check_input(fmt, bytes, probes) {
            Ok((z, acc)) => {
                self.zone[z as usize] += 1;
                if z == 2 && acc {
                    self.accepted_unspecified += 1;
                }
                if z == 0 && self.sample.len() < 2 && bytes.len() > 12 {
                    self.sample.push(json!({"format": fmt.name(), "generator": gen, "input": String::from_utf8_lossy(bytes), "zone": "must-accept"}));
                }
            }
            Err((what, msg)) => {
                let key = format!("format={};what={}", fmt.name(), what);
                let v = Violation {
                    property: "C13".into(),
                    key: key.clone(),
                    message: format!("{} reader, input {} ({} generator): {}", fmt.name(), show(bytes), gen, msg.chars().take(600).collect::<String>()),
                    case: json!({"engine": "reader", "format": fmt.name(), "bytes": bytes.to_vec()}),
                };
                match self.violations.get_mut(&key) {
                    None => {
                        self.violations.insert(key, (1, bytes.len(), v));
                    }
                    Some(e) => {
                        e.0 += 1;
                        if bytes.len() < e.1 {
                            e.1 = bytes.len();
                            e.2 = v;
                        }
                    }
                }
            }
        }
    }
}

pub const ICCMA_TOKENS: [&str; 16] = ["p", "af", "0", "1", "2", "3", "-1", "x", "#c", " ", "  ", "\t", "\n", "\r\n", "\n\n", "18446744073709551617"];
pub const APX_TOKENS: [&str; 13] = ["arg(", "att(", "a", "b", "1a", "_", ",", ").", ")", ".", " ", "\n", "\r\n"];
pub const ICCMA_LINES: [&str; 32] = [
    "18446744073709551617 1", "2 18446744073709551617", "4294967297 1", "p af 18446744073709551618",
    "p af 0", "p af 1", "p af 2", "p af 3", "p af", "p af x", "p af -1", "p aff 2", "q af 2", "p af 2 2", "1 1", "1 2", "2 1", "2 2", "3 1", "0 1", "-1 1", "1", "1 2 3", "x 1",
    "+1 1", "#c", "", " ", "1  2", " 1 2", "1 2 ", "1\t2",
];
pub const APX_LINES: [&str; 24] = [
    "arg(a).", "arg(b).", "arg(a1).", "arg(_).", "arg(1a).", "arg(a b).", "arg(a,b).", "arg().", "arg(a)", "arg(a)x", "att(a,b).", "att(b,a).", "att(a,a).", "att(a,c).", "att(a).",
    "att(a,b,a).", "att(a,b)", "att( a , b ).", "att(a,a1).", "", " ", "foo.", "% c", "arg(b).arg(a).",
];
const ICCMA_PROBES: [&str; 8] = ["0", "1", "2", "3", "4", "-1", "x", ""];
const APX_PROBES: [&str; 8] = ["a", "b", "a1", "_", "c", "1a", "", "arg"];

/// all sequences over `alphabet` of length <= k, in parallel over the first two items
fn sweep_sequences(fmt: Format, gen: &str, alphabet: &[&str], k: usize, sep: &str, probes: &[&str], final_variants: bool) -> Acc {
    let n = alphabet.len();
    let firsts: Vec<Vec<usize>> = {
        let mut v = vec![vec![]];
        for a in 0..n {
            v.push(vec![a]);
            if k >= 2 {
                for b in 0..n {
                    v.push(vec![a, b]);
                }
            }
        }
        v
    };
    firsts
        .par_iter()
        .with_max_len(1)
        .map(|start| {
            let mut acc = Acc::default();
            // enumerate all extensions of `start` (start itself included only once: when it is
            // shorter than 2 it is a complete sequence; sequences of length >= 2 are reached through
            // their 2-prefix)
            fn rec(cur: &mut Vec<usize>, k: usize, n: usize, f: &mut dyn FnMut(&[usize])) {
                f(cur);
                if cur.len() == k {
                    return;
                }
                for a in 0..n {
                    cur.push(a);
                    rec(cur, k, n, f);
                    cur.pop();
                }
            }
            let mut emit = |seq: &[usize]| {
                let mut s = String::new();
                for (i, &t) in seq.iter().enumerate() {
                    s.push_str(alphabet[t]);
                    if !sep.is_empty() && (i + 1 < seq.len()) {
                        s.push_str(sep);
                    }
                }
                if sep.is_empty() {
                    acc.feed(fmt, gen, s.as_bytes(), probes);
                } else {
                    // with and without final newline
                    let with_nl = format!("{}{}", s, sep);
                    if !seq.is_empty() {
                        acc.feed(fmt, gen, with_nl.as_bytes(), probes);
                    }
                    if final_variants || seq.is_empty() {
                        acc.feed(fmt, gen, s.as_bytes(), probes);
                    }
                }
            };
            if start.len() < 2 {
                emit(start);
            } else {
                let mut cur = start.clone();
                rec(&mut cur, k, n, &mut emit);
            }
            acc
        })
        .reduce(Acc::default, Acc::merge)
}

fn corpus(fmt: Format) -> Vec<String> {
    match fmt {
        Format::Iccma => vec![
            "p af 0\n".into(),
            "p af 1\n".into(),
            "p af 1\n1 1\n".into(),
            "p af 2\n1 2\n".into(),
            "p af 2\n1 2\n2 1\n".into(),
            "p af 3\n1 2\n2 3\n3 1\n".into(),
            "# c\np af 2\n# d\n2 1\n".into(),
            "p af 3\n3 3\n1 2\n1 2\n".into(),
            "p af 2\n1 2".into(),
            "p af 10\n10 1\n1 10\n".into(),
            "p af 2\n2 2\n\n".into(),
            "p af 3\n# x\n".into(),
        ],
        Format::Apx => vec![
            "".into(),
            "arg(a).\n".into(),
            "arg(a).\natt(a,a).\n".into(),
            "arg(a).\narg(b).\natt(a,b).\n".into(),
            "arg(a).\narg(b).\natt(a,b).\natt(b,a).\n".into(),
            "arg(a1).\narg(_b).\narg(C).\natt(a1,_b).\natt(_b,C).\natt(C,a1).\n".into(),
            "arg(a).\narg(b).\natt(b,a)".into(),
            "arg(x).\n\narg(y).\natt(y,x).\n".into(),
            "arg(arg).\narg(att).\natt(arg,att).\n".into(),
            "arg(a).\narg(b).\narg(c).\n".into(),
            "arg(b).\narg(a).\natt(a,b).\n".into(),
            "arg(a_1).\narg(a_2).\natt(a_2,a_1).\natt(a_1,a_1).\n".into(),
        ],
    }
}

fn sweep_corruptions(fmt: Format, probes: &[&str]) -> Acc {
    let files = corpus(fmt);
    let ins_alpha: &[u8] = b"pafrgt()., 012-+x#\n\r\t_\0\xff\xc3";
    files
        .par_iter()
        .map(|f| {
            let mut acc = Acc::default();
            let b = f.as_bytes();
            acc.feed(fmt, "corpus", b, probes);
            for i in 0..b.len() {
                for v in 0..=255u8 {
                    if v != b[i] {
                        let mut c = b.to_vec();
                        c[i] = v;
                        acc.feed(fmt, "byte substitution", &c, probes);
                    }
                }
                let mut c = b.to_vec();
                c.remove(i);
                acc.feed(fmt, "byte deletion", &c, probes);
            }
            for i in 0..=b.len() {
                for &v in ins_alpha {
                    let mut c = b.to_vec();
                    c.insert(i, v);
                    acc.feed(fmt, "byte insertion", &c, probes);
                }
            }
            // token level: split keeping separators
            let mut toks: Vec<String> = vec![];
            let mut cur = String::new();
            for ch in f.chars() {
                if ch.is_ascii_alphanumeric() || ch == '_' {
                    cur.push(ch);
                } else {
                    if !cur.is_empty() {
                        toks.push(std::mem::take(&mut cur));
                    }
                    toks.push(ch.to_string());
                }
            }
            if !cur.is_empty() {
                toks.push(cur);
            }
            for i in 0..toks.len() {
                let mut t = toks.clone();
                t.remove(i);
                acc.feed(fmt, "token deletion", t.concat().as_bytes(), probes);
                let mut t = toks.clone();
                t.insert(i, toks[i].clone());
                acc.feed(fmt, "token duplication", t.concat().as_bytes(), probes);
                for j in i + 1..toks.len() {
                    let mut t = toks.clone();
                    t.swap(i, j);
                    acc.feed(fmt, "token swap", t.concat().as_bytes(), probes);
                }
            }
            // line level: deletion, duplication, swap of whole lines
            let lines: Vec<&str> = f.split_inclusive('\n').collect();
            for i in 0..lines.len() {
                let mut t = lines.clone();
                t.remove(i);
                acc.feed(fmt, "line deletion", t.concat().as_bytes(), probes);
                let mut t = lines.clone();
                t.insert(i, lines[i]);
                acc.feed(fmt, "line duplication", t.concat().as_bytes(), probes);
                for j in i + 1..lines.len() {
                    let mut t = lines.clone();
                    t.swap(i, j);
                    acc.feed(fmt, "line swap", t.concat().as_bytes(), probes);
                }
            }
            acc
        })
        .reduce(Acc::default, Acc::merge)
}

fn sweep_short_bytes(fmt: Format, probes: &[&str]) -> Acc {
    let alpha40: &[u8] = b"paf rgt(),.0123-+x#\n\r\t_\0\xff\xc3\xa9AZz9%:;";
    let firsts: Vec<u16> = (0..256u16).collect();
    let a = firsts
        .par_iter()
        .map(|&x| {
            let mut acc = Acc::default();
            acc.feed(fmt, "all bytes, length 1", &[x as u8], probes);
            for y in 0..=255u8 {
                acc.feed(fmt, "all bytes, length 2", &[x as u8, y], probes);
            }
            acc
        })
        .reduce(Acc::default, Acc::merge);
    let b = alpha40
        .par_iter()
        .map(|&x| {
            let mut acc = Acc::default();
            for &y in alpha40 {
                for &z in alpha40 {
                    acc.feed(fmt, "40-byte alphabet, length 3", &[x, y, z], probes);
                }
            }
            acc
        })
        .reduce(Acc::default, Acc::merge);
    let mut e = Acc::default();
    e.feed(fmt, "empty input", b"", probes);
    a.merge(b).merge(e)
}

/// every well-formed file of U(<=n) in a finite menu of layouts
fn sweep_grammar(fmt: Format, n: usize, probes: &[&str]) -> Acc {
    let graphs = crate::universe::universe_upto(n);
    graphs
        .par_iter()
        .map(|g| {
            let mut acc = Acc::default();
            let lines: Vec<String> = match fmt {
                Format::Iccma => {
                    let mut v = vec![format!("p af {}", g.n)];
                    v.extend(g.att.iter().map(|&(a, b)| format!("{} {}", a + 1, b + 1)));
                    v
                }
                Format::Apx => {
                    let names = ["a", "b_2", "C"];
                    let mut v: Vec<String> = (0..g.n).map(|i| format!("arg({}).", names[i])).collect();
                    v.extend(g.att.iter().map(|&(a, b)| format!("att({},{}).", names[a], names[b])));
                    v
                }
            };
            let comment = if fmt == Format::Iccma { "# comment" } else { "" };
            // layouts: plain; no final newline; comment at each position (ICCMA); trailing blank
            // line; CRLF; surrounding spaces; duplicated last line; reversed attack lines
            let plain = lines.join("\n") + "\n";
            acc.feed(fmt, "grammar: plain", plain.as_bytes(), probes);
            acc.feed(fmt, "grammar: no final newline", lines.join("\n").as_bytes(), probes);
            acc.feed(fmt, "grammar: trailing blank line", (plain.clone() + "\n").as_bytes(), probes);
            acc.feed(fmt, "grammar: CRLF", (lines.join("\r\n") + "\r\n").as_bytes(), probes);
            acc.feed(fmt, "grammar: surrounding spaces", lines.iter().map(|l| format!(" {} \n", l)).collect::<String>().as_bytes(), probes);
            if fmt == Format::Iccma {
                for pos in 0..=lines.len() {
                    let mut l = lines.clone();
                    l.insert(pos, comment.to_string());
                    acc.feed(fmt, "grammar: comment line at every position", (l.join("\n") + "\n").as_bytes(), probes);
                }
            }
            for pos in 0..lines.len() {
                let mut l = lines.clone();
                l.insert(pos, lines[pos].clone());
                acc.feed(fmt, "grammar: duplicated declaration", (l.join("\n") + "\n").as_bytes(), probes);
                let mut l = lines.clone();
                l.insert(pos, String::new());
                acc.feed(fmt, "grammar: blank line inserted", (l.join("\n") + "\n").as_bytes(), probes);
            }
            acc
        })
        .reduce(Acc::default, Acc::merge)
}

/// one line of every length up to ~220 bytes with one character of every UTF-8 width at every offset,
/// in each syntactic position of the format (error paths quote / truncate / index the offending line)
fn sweep_long_lines(fmt: Format, probes: &[&str]) -> Acc {
    let templates: Vec<(&str, &str, &str)> = match fmt {
        // (text before the line, line prefix, line suffix)
        Format::Iccma => vec![("", "", ""), ("p af 2\n", "", ""), ("p af 2\n", "# ", ""), ("", "# ", ""), ("", "p af ", ""), ("p af 2\n", "1 ", ""), ("p af 2\n1 2\n", "", " 1")],
        Format::Apx => vec![("", "", ""), ("arg(a).\n", "", "."), ("", "arg(", ")."), ("arg(a).\n", "att(a,", ")."), ("arg(a).\n", "att(", ",a)."), ("arg(a).\n", "% ", ""), ("", "arg(a)", "")],
    };
    let wides = ["", "\u{e9}", "\u{20ac}", "\u{1f600}"];
    let ks: Vec<usize> = (0..=130).collect();
    ks.par_iter()
        .map(|&k| {
            let mut acc = Acc::default();
            for (before, pre, suf) in &templates {
                for w in &wides {
                    for m in [0usize, 1, 80] {
                        let line = format!("{}{}{}{}{}", pre, "x".repeat(k), w, "y".repeat(m), suf);
                        acc.feed(fmt, "long lines", format!("{}{}\n", before, line).as_bytes(), probes);
                        acc.feed(fmt, "long lines", format!("{}{}", before, line).as_bytes(), probes);
                    }
                }
            }
            acc
        })
        .reduce(Acc::default, Acc::merge)
}

/// lines whose length straddles every power of two from 2^7 to 2^17 (and 2^20 in the thorough tier):
/// fixed-size read buffers and chunked copies show at these sizes only; the long line is followed
/// by further declarations, which must not be lost
fn sweep_buffer_boundaries(fmt: Format, probes: &[&str], thorough: bool) -> Acc {
    let mut lens: Vec<usize> = vec![];
    for k in 7..=17u32 {
        for d in [-1i64, 0, 1] {
            lens.push(((1i64 << k) + d) as usize);
        }
    }
    if thorough {
        lens.extend([(1 << 20) - 1, 1 << 20, (1 << 20) + 1]);
    }
    lens.par_iter()
        .with_max_len(1)
        .map(|&len| {
            let mut acc = Acc::default();
            let x = "x".repeat(len);
            let files: Vec<String> = match fmt {
                Format::Iccma => vec![
                    format!("p af 2\n# {}\n1 2\n", x),
                    format!("# {}\np af 2\n2 1\n", x),
                    format!("p af 2\n1 2\n# {}\n2 1\n", x),
                    format!("p af 2\n1 2\n# {}", x),
                    format!("p af 2\n{}\n1 2\n", x),
                    format!("p af 2\n1 2\n{}\n", x),
                    format!("p af 2\n1 {}2\n", " ".repeat(len)),
                    // an empty line, then a long comment, then more content (ill-formed: content after a blank line)
                    format!("p af 2\n1 2\n\n# {}\n2 1\n", x),
                    format!("p af 2\n\n# {}\n1 2\n", x),
                    format!("p af 2\n1 2\n# {}\n\n# c\n2 1\n", x),
                ],
                Format::Apx => vec![
                    format!("arg(a).\narg(b).\n% {}\natt(a,b).\n", x),
                    format!("% {}\narg(a).\narg(b).\natt(b,a).\n", x),
                    format!("arg(a).\narg({}).\natt(a,{}).\natt({},a).\n", x, x, x),
                    format!("arg(a).\narg(b).\natt(a,b).\n% {}", x),
                    format!("arg(a).\n{}\narg(b).\n", x),
                    format!("arg(a).\narg(b).\natt(a,b).\n{}.\n", x),
                    format!("arg(a).\narg(b).\n\n% {}\natt(a,b).\n", x),
                ],
            };
            for f in &files {
                acc.feed(fmt, "buffer boundaries", f.as_bytes(), probes);
            }
            acc
        })
        .reduce(Acc::default, Acc::merge)
}

/// well-formed files far beyond the small scope (two- to four-digit indexes, labels of 10+ characters,
/// thousands of lines) and their structural edits: the classifier is the same, only the sizes differ
fn sweep_big_files(fmt: Format, probes: &[&str], thorough: bool) -> Acc {
    // 1023 / 1024 / 1025 / 1100: the Aspartix reader reserves room for 2^10 labels
    let sizes: Vec<usize> = if thorough { vec![12, 40, 150, 1000, 1023, 1024, 1025, 1100, 3000] } else { vec![12, 40, 150, 1023, 1024, 1025, 1100] };
    let cells: Vec<(&str, usize, usize)> = crate::checks::c11::FAMILIES.iter().flat_map(|f| sizes.iter().flat_map(move |&z| (0..2usize).map(move |style| (*f, z, style)))).collect();
    cells
        .par_iter()
        .with_max_len(1)
        .map(|&(fam, size, style)| {
            let mut acc = Acc::default();
            let g = crate::checks::c11::family(fam, size);
            let n = g.n;
            let label = |i: usize| if style == 0 { format!("a{}", i) } else { format!("argument_{:05}_of_{}", i, fam) };
            let text = match fmt {
                Format::Iccma => {
                    if style == 1 {
                        // same file with comments interleaved
                        let mut t = format!("# {} {}\np af {}\n", fam, size, n);
                        for (k, &(a, b)) in g.att.iter().enumerate() {
                            if k % 7 == 0 {
                                t.push_str("# comment line\n");
                            }
                            t.push_str(&format!("{} {}\n", a + 1, b + 1));
                        }
                        t
                    } else {
                        crate::universe::iccma_text(&g)
                    }
                }
                Format::Apx => crate::universe::apx_text(&g, &(0..n).map(label).collect::<Vec<_>>()),
            };
            acc.feed(fmt, "big files", text.as_bytes(), probes);
            let lines: Vec<&str> = text.split_inclusive('\n').collect();
            let m = lines.len();
            let mut pos = vec![0, 1, 2, m / 3, m / 2, m - 2, m - 1];
            pos.retain(|&p| p < m);
            pos.dedup();
            for &i in &pos {
                let mut t = lines.clone();
                t.remove(i);
                acc.feed(fmt, "big files: line deletion", t.concat().as_bytes(), probes);
                let mut t = lines.clone();
                t.insert(i, lines[i]);
                acc.feed(fmt, "big files: line duplication", t.concat().as_bytes(), probes);
                let mut t = lines.clone();
                t.swap(i, m - 1);
                acc.feed(fmt, "big files: line swap", t.concat().as_bytes(), probes);
                let mut t = lines.clone();
                t.insert(i, "\n");
                acc.feed(fmt, "big files: blank line inserted", t.concat().as_bytes(), probes);
            }
            let extra: Vec<String> = match fmt {
                Format::Iccma => vec![format!("{} 1\n", n + 1), format!("1 {}\n", n + 1), "0 1\n".into(), format!("{} {}\n", n, n), format!("{} {} 1\n", n, n), format!("{}\n", n), format!("p af {}\n", n)],
                Format::Apx => vec![format!("att({},{}).\n", label(n - 1), label(n)), format!("att({},{}).\n", label(n), label(0)), format!("att({},{}).\n", label(n - 1), label(n - 1)), format!("arg({}).\n", label(n)), format!("att({}).\n", label(0)), format!("arg({}).\n", label(0))],
            };
            for e in &extra {
                acc.feed(fmt, "big files: line appended", format!("{}{}", text, e).as_bytes(), probes);
            }
            if fmt == Format::Iccma {
                // header declaring one argument fewer / more than the attack lines use
                for d in [n - 1, n + 1] {
                    let t = text.replacen(&format!("p af {}\n", n), &format!("p af {}\n", d), 1);
                    acc.feed(fmt, "big files: header count changed", t.as_bytes(), probes);
                }
            }
            acc
        })
        .reduce(Acc::default, Acc::merge)
}

/// One input through `crustabri check -f FILE -r FORMAT` (the reader's command-line face, which the
/// property names as an observation point): exit status 0 in the must-accept zone, non-zero in the
/// must-reject zone, a regular exit everywhere.
pub fn check_cmd_one(fmt: Format, bytes: &[u8], seq: usize) -> Result<u8, (String, String)> {
    let zone = match fmt {
        Format::Iccma => classify_iccma(bytes),
        Format::Apx => classify_apx(bytes),
    };
    let dir = crate::checks::c16::scratch_dir("c13cmd");
    let path = dir.join(format!("in_{}_{}.{}", std::process::id(), seq, if fmt == Format::Apx { "apx" } else { "af" }));
    std::fs::write(&path, bytes).expect("scratch file");
    let inv = crate::checks::c05::Invocation {
        bin: crate::checks::c05::bin_solve(),
        args: vec!["check".into(), "-f".into(), path.display().to_string(), "-r".into(), if fmt == Format::Apx { "apx".into() } else { "iccma23".into() }, "--logging-level".into(), "off".into()],
    };
    let r = crate::checks::c05::run(&inv);
    let _ = std::fs::remove_file(&path);
    match (&zone, r.code) {
        (_, None) => Err(("check_command_no_regular_exit".into(), format!("`crustabri check` did not exit regularly (signal or 60 s watchdog): {}", r.stdout))),
        (Zone::Accept(_), Some(0)) => Ok(0),
        (Zone::Accept(_), Some(c)) => Err(("wellformed_rejected_by_check_command".into(), format!("`crustabri check` exits with status {} on a well-formed file", c))),
        (Zone::Reject(why), Some(0)) => Err((format!("illformed_accepted_by_check_command:{}", why.replace(' ', "_")), format!("`crustabri check` exits with status 0 on an ill-formed file ({})", why))),
        (Zone::Reject(_), Some(_)) => Ok(1),
        (_, Some(_)) => Ok(2),
    }
}

fn sweep_check_command(fmt: Format, lines: &[&str], k: usize) -> Acc {
    let mut inputs: Vec<Vec<u8>> = vec![];
    for f in corpus(fmt) {
        inputs.push(f.as_bytes().to_vec());
        let ls: Vec<&str> = f.split_inclusive('\n').collect();
        for i in 0..ls.len() {
            let mut t = ls.clone();
            t.remove(i);
            inputs.push(t.concat().into_bytes());
            let mut t = ls.clone();
            t.insert(i, ls[i]);
            inputs.push(t.concat().into_bytes());
            for j in i + 1..ls.len() {
                let mut t = ls.clone();
                t.swap(i, j);
                inputs.push(t.concat().into_bytes());
            }
        }
    }
    // all line sequences of length <= k
    let mut seqs: Vec<Vec<usize>> = vec![vec![]];
    let mut frontier: Vec<Vec<usize>> = vec![vec![]];
    for _ in 0..k {
        let mut next = vec![];
        for s in &frontier {
            for i in 0..lines.len() {
                let mut t = s.clone();
                t.push(i);
                next.push(t);
            }
        }
        seqs.extend(next.iter().cloned());
        frontier = next;
    }
    for s in seqs {
        let mut text = String::new();
        for i in s {
            text.push_str(lines[i]);
            text.push('\n');
        }
        inputs.push(text.into_bytes());
    }
    inputs.sort();
    inputs.dedup();
    let idx: Vec<usize> = (0..inputs.len()).collect();
    idx.par_iter()
        .with_max_len(1)
        .map(|&i| {
            let mut acc = Acc::default();
            acc.inputs += 1;
            let bytes = &inputs[i];
            match check_cmd_one(fmt, bytes, i) {
                Ok(z) => acc.zone[z as usize] += 1,
                Err((what, msg)) => {
                    let key = format!("format={};what={}", fmt.name(), what);
                    let v = Violation {
                        property: "C13".into(),
                        key: key.clone(),
                        message: format!("{} file {}: {}", fmt.name(), show(bytes), msg),
                        case: json!({"engine": "check_cmd", "format": fmt.name(), "bytes": bytes.to_vec()}),
                    };
                    acc.violations.insert(key, (1, bytes.len(), v));
                }
            }
            acc
        })
        .reduce(Acc::default, Acc::merge)
}

pub fn run(tier: Tier) -> i32 {
    let mut rep = Report::new("C13", tier);
    let thorough = tier == Tier::Thorough;
    let ktok = if thorough { 7 } else { 6 };
    let klin = if thorough { 6 } else { 5 };
    let mut total = Acc::default();
    let mut spaces = serde_json::Map::new();
    let mut run_one = |name: String, acc: Acc, total: &mut Acc| {
        spaces.insert(
            name,
            json!({"inputs": acc.inputs, "must_accept": acc.zone[0], "must_reject": acc.zone[1], "unspecified": acc.zone[2], "unspecified_but_accepted": acc.accepted_unspecified}),
        );
        let t = std::mem::take(total);
        *total = t.merge(acc);
    };
    for (fmt, toks, lines, probes) in [
        (Format::Iccma, &ICCMA_TOKENS[..], &ICCMA_LINES[..], &ICCMA_PROBES[..]),
        (Format::Apx, &APX_TOKENS[..], &APX_LINES[..], &APX_PROBES[..]),
    ] {
        run_one(format!("{}: all token strings of length <= {} over {} tokens", fmt.name(), ktok, toks.len()), sweep_sequences(fmt, "token strings", toks, ktok, "", probes, false), &mut total);
        run_one(format!("{}: all line sequences of length <= {} over {} lines (with / without final newline)", fmt.name(), klin, lines.len()), sweep_sequences(fmt, "line sequences", lines, klin, "\n", probes, true), &mut total);
        run_one(format!("{}: every single-byte / token / line edit of a 12-file corpus", fmt.name()), sweep_corruptions(fmt, probes), &mut total);
        run_one(format!("{}: all byte strings of length <= 2, and of length 3 over 40 bytes", fmt.name()), sweep_short_bytes(fmt, probes), &mut total);
        run_one(format!("{}: every well-formed file of U(<={}) in a menu of layouts", fmt.name(), 3), sweep_grammar(fmt, 3, probes), &mut total);
        run_one(format!("{}: one line of every length <= 130+ with one character of each UTF-8 width at every offset, in 7 syntactic positions", fmt.name()), sweep_long_lines(fmt, probes), &mut total);
        run_one(format!("{}: well-formed files of 10 structured families with 12 ... {} arguments (short and 20+-character labels / interleaved comments) and their line edits", fmt.name(), if thorough { 3000 } else { 1100 }), sweep_big_files(fmt, probes, thorough), &mut total);
        run_one(format!("{}: lines of length 2^k-1, 2^k, 2^k+1 for k = 7..17{} in 7-10 syntactic positions (incl. after an empty line), followed by further declarations", fmt.name(), if thorough { " and 20" } else { "" }), sweep_buffer_boundaries(fmt, probes, thorough), &mut total);
        let kc = if thorough { 3 } else { 2 };
        run_one(format!("{}: `crustabri check` as a process on the corpus, its line edits and all line sequences of length <= {}", fmt.name(), kc), sweep_check_command(fmt, lines, kc), &mut total);
    }
    rep.states = total.inputs;
    rep.transitions = total.inputs;
    rep.traces = total.inputs;
    rep.evaluations = total.inputs;
    rep.distinct_nontrivial = total.zone[0] + total.zone[1];
    rep.extra.insert("spaces".into(), serde_json::Value::Object(spaces));
    rep.extra.insert("zones".into(), json!({"must_accept": total.zone[0], "must_reject": total.zone[1], "unspecified": total.zone[2]}));
    for s in total.sample {
        rep.add_sample(s);
    }
    for (_, (n, _, v)) in total.violations {
        rep.n_violations += n - 1;
        rep.add_violation(v);
    }
    rep.rule = "every input of eight exhaustively enumerated finite families per format is read by the real reader, and a ninth family is given to `crustabri check` as a process (exit status 0 / non-zero against the same zones); states = transitions = inputs; three-zone oracle: strict grammar => Ok with exactly the declared arguments (declaration order, ids) and attacks; the ill-formedness classes the property lists => Err; everything else: no requirement on accept/reject; in all zones no panic and a self-consistent result; read_arg_from_str probed on every accepted framework; distinct_nontrivial = inputs in the must-accept or must-reject zone".into();
    rep.bounds = json!({"token_string_length": ktok, "line_sequence_length": klin, "declared_sizes": "<= 10 in the exhaustive families, 12 ... 1000 [3000] in the structured big-file family"});
    rep.assumptions = vec!["the zone classifier (harness) is the specification of well-/ill-formedness; CRLF, irregular spacing, duplicate declarations, exotic number spellings are deliberately unspecified".into()];
    rep.finish()
}
