//! C06: answers do not depend on encoding, SAT backend, certificate flag or query order; querying
//! never modifies the framework.
//!  (a) matrix: for every (graph, problem, argument) the statuses of all cells
//!      {encoders} x {CaDiCaL, every leaf of the oracle choice tree, external process} x {cert} agree;
//!  (b) order: all short sequences of queries on ONE solver object; each answer equals the answer
//!      of a fresh object and is valid; the framework's concrete state is unchanged.

use crate::checks::c16::{external_sweep, graphs_for_external};
use crate::checks::static_checks::{full_tree, s_family, small_universe};
use crate::choicesat::{catch, explore, Exec, ExploreStats, FvPolicy};
use crate::refmodel::{Graph, RefAnswers, Sem, ALL_SEMS};
use crate::report::{Report, Tier, Violation};
use crate::staticq::{cadical_factory, encoder_menu, judge, make_solver, run_query, AnySolver, Enc, Out, QKind, Query};
use crate::sweep::{with_presentation, BuiltVisitor};
use crate::universe::{Built, Presentation};
use crustabri::utils::LabelType;
use rayon::prelude::*;
use serde_json::{json, Value};
use std::collections::BTreeMap;

#[derive(Default)]
struct Acc {
    stats: ExploreStats,
    cells: u64,
    groups: u64,
    sequences: u64,
    queries_in_sequences: u64,
    nontrivial: u64,
    violations: BTreeMap<String, (u64, Violation)>,
    sample: Option<Value>,
    machinery: Vec<String>,
}

impl Acc {
    fn merge(mut self, o: Acc) -> Acc {
        self.stats.add(&o.stats);
        self.cells += o.cells;
        self.groups += o.groups;
        self.sequences += o.sequences;
        self.queries_in_sequences += o.queries_in_sequences;
        self.nontrivial += o.nontrivial;
        for (k, (n, v)) in o.violations {
            let e = self.violations.entry(k).or_insert((0, v));
            e.0 += n;
        }
        if self.sample.is_none() {
            self.sample = o.sample;
        }
        self.machinery.extend(o.machinery);
        self
    }
    fn add(&mut self, v: Violation) {
        let e = self.violations.entry(v.key.clone()).or_insert((0, v));
        e.0 += 1;
    }
}

// ---------------------------------------------------------------------------------------------
// (a) matrix

struct Matrix<'a> {
    name: &'a str,
    g: &'a Graph,
    pres: Presentation,
    /// oracle part of the matrix: complete tree, or the default path only (large members of S)
    dev_bound: Option<usize>,
    acc: &'a mut Acc,
}

impl<'a> BuiltVisitor for Matrix<'a> {
    fn visit<T: LabelType>(&mut self, b: &Built<T>) {
        for kind in [QKind::SE, QKind::DC, QKind::DS] {
            for sem in ALL_SEMS {
                let arg_lists: Vec<Vec<usize>> = if kind == QKind::SE { vec![vec![]] } else { (0..self.g.n).map(|a| vec![a]).collect() };
                for args in arg_lists {
                    self.acc.groups += 1;
                    // status -> first cell showing it
                    let mut seen: BTreeMap<Option<bool>, String> = BTreeMap::new();
                    let mut note = |status: Option<bool>, cell: String, acc: &mut Acc| {
                        acc.cells += 1;
                        seen.entry(status).or_insert(cell);
                    };
                    for enc in encoder_menu(kind, sem, true) {
                        for cert in if kind == QKind::SE { vec![false] } else { vec![false, true] } {
                            let q = Query { kind, sem, args: args.clone(), cert, enc };
                            // CaDiCaL
                            let r = catch(|| run_query(b, &q, cadical_factory()));
                            note(r.as_ref().ok().and_then(|o| o.status()), format!("enc={} cert={} backend=cadical -> {}", enc.name(), cert, r.as_ref().map(|o| o.describe()).unwrap_or_else(|e| format!("panic {}", e))), self.acc);
                            // every leaf of the oracle choice tree
                            let cfg = crate::choicesat::ExploreCfg { dev_bound: self.dev_bound, ..full_tree(FvPolicy::False) };
                            let mut leaves: Vec<(Vec<usize>, Result<Out, String>)> = vec![];
                            match explore(&cfg, &mut |f| run_query(b, &q, f), &mut |e: &Exec<Out>| leaves.push((e.choices.clone(), e.result.clone()))) {
                                Ok(st) => self.acc.stats.add(&st),
                                Err(m) => self.acc.machinery.push(m.0),
                            }
                            for (choices, r) in leaves {
                                note(r.as_ref().ok().and_then(|o| o.status()), format!("enc={} cert={} backend=oracle choices={:?} -> {}", enc.name(), cert, choices, r.as_ref().map(|o| o.describe()).unwrap_or_else(|e| format!("panic {}", e))), self.acc);
                            }
                        }
                    }
                    if seen.len() > 1 {
                        let cells: Vec<String> = seen.values().cloned().collect();
                        self.acc.add(Violation {
                            property: "C06".into(),
                            key: format!("part=matrix;problem={}-{}", kind.name(), sem.name()),
                            message: format!("{}-{} {:?} on {} [{}]: cells of the configuration matrix disagree: {}", kind.name(), sem.name(), args, self.g.describe(), self.pres.name(), cells.join("  VERSUS  ")),
                            case: json!({"engine": "matrix", "graph_name": self.name, "graph": self.g.to_json(), "presentation": self.pres.name(), "kind": kind.name(), "sem": sem.name(), "args": args}),
                        });
                    }
                }
            }
        }
    }
}

// ---------------------------------------------------------------------------------------------
// (b) order

#[derive(Clone, Debug, PartialEq, Eq, Hash)]
pub struct Item {
    pub kind: QKind,
    pub args: Vec<usize>,
    pub cert: bool,
}

fn variant_name<T: LabelType>(s: &AnySolver<T>) -> &'static str {
    match s {
        AnySolver::Gr(_) => "GroundedSemanticsSolver",
        AnySolver::Co(_) => "CompleteSemanticsSolver",
        AnySolver::Pr(_) => "PreferredSemanticsSolver",
        AnySolver::St(_) => "StableSemanticsSolver",
        AnySolver::Sst(_) => "SemiStableSemanticsSolver",
        AnySolver::Stg(_) => "StageSemanticsSolver",
        AnySolver::Id(_) => "IdealSemanticsSolver",
    }
}

fn supported(variant: &str, kind: QKind) -> bool {
    match variant {
        "CompleteSemanticsSolver" => kind == QKind::DC,
        "PreferredSemanticsSolver" => kind != QKind::DC,
        _ => true,
    }
}

/// semantics whose reference family judges queries put to a solver object of this variant
fn judge_sem(variant: &str, sem: Sem) -> Sem {
    match variant {
        "GroundedSemanticsSolver" => Sem::GR,
        "CompleteSemanticsSolver" => Sem::CO,
        _ => sem,
    }
}

struct Order<'a> {
    name: &'a str,
    g: &'a Graph,
    pres: Presentation,
    ra: &'a RefAnswers,
    max_len: usize,
    rich_menu: bool,
    acc: &'a mut Acc,
}

impl<'a> BuiltVisitor for Order<'a> {
    fn visit<T: LabelType>(&mut self, b: &Built<T>) {
        let n = self.g.n;
        if n == 0 {
            return;
        }
        let before = snapshot(b);
        let mut done: Vec<(String, Enc)> = vec![];
        for sem in ALL_SEMS {
            for kind0 in [QKind::SE, QKind::DC, QKind::DS] {
                for enc in encoder_menu(kind0, sem, false) {
                    let variant = {
                        let s = make_solver(b, kind0, sem, enc, cadical_factory());
                        variant_name(&s)
                    };
                    let id = (format!("{}/{}", variant, if variant == "GroundedSemanticsSolver" { "GR".to_string() } else { sem.name().to_string() }), enc);
                    if done.contains(&id) {
                        continue;
                    }
                    done.push(id);
                    let jsem = judge_sem(variant, sem);
                    // menu of items
                    let k = n.min(3);
                    let mut items: Vec<Item> = vec![];
                    if supported(variant, QKind::SE) {
                        items.push(Item { kind: QKind::SE, args: vec![], cert: false });
                    }
                    for kind in [QKind::DC, QKind::DS] {
                        if !supported(variant, kind) {
                            continue;
                        }
                        for a in 0..k {
                            items.push(Item { kind, args: vec![a], cert: false });
                            if self.rich_menu || a == 0 {
                                items.push(Item { kind, args: vec![a], cert: true });
                            }
                        }
                        if self.rich_menu && k >= 2 {
                            items.push(Item { kind, args: vec![0, 1], cert: false });
                            items.push(Item { kind, args: vec![1, 0], cert: true });
                        }
                    }
                    // answers of fresh objects
                    let fresh: Vec<Result<Out, String>> = items
                        .iter()
                        .map(|it| {
                            catch(|| {
                                let mut s = make_solver(b, kind0, sem, enc, cadical_factory());
                                s.query(b, it.kind, &it.args, it.cert)
                            })
                        })
                        .collect();
                    // all sequences of length 2..=max_len (length 1 = fresh)
                    let mut seqs: Vec<Vec<usize>> = (0..items.len()).map(|i| vec![i]).collect();
                    let mut all: Vec<Vec<usize>> = vec![];
                    for _ in 1..self.max_len {
                        let mut next = vec![];
                        for s in &seqs {
                            for i in 0..items.len() {
                                let mut t = s.clone();
                                t.push(i);
                                next.push(t);
                            }
                        }
                        all.extend(next.iter().cloned());
                        seqs = next;
                    }
                    for seq in &all {
                        self.acc.sequences += 1;
                        let res = catch(|| {
                            let mut s = make_solver(b, kind0, sem, enc, cadical_factory());
                            seq.iter().map(|&i| s.query(b, items[i].kind, &items[i].args, items[i].cert)).collect::<Vec<Out>>()
                        });
                        let descr = |seq: &[usize]| seq.iter().map(|&i| format!("{}{:?}{}", items[i].kind.name(), items[i].args, if items[i].cert { "c" } else { "" })).collect::<Vec<_>>().join(", ");
                        let case = json!({"engine": "order", "graph_name": self.name, "graph": self.g.to_json(), "presentation": self.pres.name(), "solver": variant, "sem": sem.name(), "enc": enc.name(),
                            "sequence": seq.iter().map(|&i| json!({"kind": items[i].kind.name(), "args": items[i].args, "cert": items[i].cert})).collect::<Vec<_>>()});
                        match res {
                            Err(p) => self.acc.add(Violation {
                                property: "C06".into(),
                                key: format!("part=order;solver={};enc={};what=panic", variant, enc.name()),
                                message: format!("{} ({}, enc {}) on {}: sequence [{}] on one solver object panicked: {}", variant, sem.name(), enc.name(), self.g.describe(), descr(seq), p),
                                case,
                            }),
                            Ok(outs) => {
                                for (pos, (&i, out)) in seq.iter().zip(outs.iter()).enumerate() {
                                    self.acc.queries_in_sequences += 1;
                                    let fresh_status = fresh[i].as_ref().ok().and_then(|o| o.status());
                                    let q = Query { kind: items[i].kind, sem: jsem, args: items[i].args.clone(), cert: items[i].cert, enc };
                                    let errs = judge(self.ra, &q, out);
                                    if out.status() != fresh_status || !errs.is_empty() {
                                        self.acc.add(Violation {
                                            property: "C06".into(),
                                            key: format!("part=order;solver={};enc={};what=answer_depends_on_history", variant, enc.name()),
                                            message: format!(
                                                "{} ({}, enc {}) on {} [{}]: in the sequence [{}] on one solver object, query {} answered {} (fresh object: {}; deviations from the semantics: {:?})",
                                                variant, sem.name(), enc.name(), self.g.describe(), self.pres.name(), descr(seq), pos + 1, out.describe(),
                                                fresh[i].as_ref().map(|o| o.describe()).unwrap_or_else(|e| format!("panic {}", e)), errs
                                            ),
                                            case: case.clone(),
                                        });
                                        break;
                                    }
                                }
                            }
                        }
                        if self.acc.sample.is_none() && seq.len() >= 3 {
                            self.acc.sample = Some(json!({"solver": variant, "sem": sem.name(), "enc": enc.name(), "graph": self.g.describe(), "sequence": descr(seq)}));
                        }
                    }
                }
            }
        }
        let after = snapshot(b);
        if before != after {
            self.acc.add(Violation {
                property: "C06".into(),
                key: "part=order;what=framework_modified_by_queries".into(),
                message: format!("queries modified the framework {} [{}]: before {:?} after {:?}", self.g.describe(), self.pres.name(), before, after),
                case: json!({"engine": "order", "graph": self.g.to_json(), "presentation": self.pres.name()}),
            });
        }
        if let Err(m) = crate::checks::c06::consistent(b) {
            self.acc.add(Violation {
                property: "C06".into(),
                key: "part=order;what=framework_inconsistent_after_queries".into(),
                message: format!("after the queries the framework {} is inconsistent: {}", self.g.describe(), m),
                case: json!({"engine": "order", "graph": self.g.to_json(), "presentation": self.pres.name()}),
            });
        }
    }
}

/// everything observable of a framework: arguments (label, id) in iteration order, attacks as a
/// multiset, counts (internal caches, if any, are not part of it)
pub fn snapshot<T: LabelType>(b: &Built<T>) -> (Vec<(String, usize)>, Vec<(usize, usize)>, usize, usize, Option<usize>) {
    let args: Vec<(String, usize)> = b.af.argument_set().iter().map(|a| (a.label().to_string(), a.id())).collect();
    let mut atts: Vec<(usize, usize)> = b.af.iter_attacks().map(|a| (a.attacker().id(), a.attacked().id())).collect();
    atts.sort();
    (args, atts, b.af.n_arguments(), b.af.n_attacks(), b.af.max_argument_id())
}

pub fn consistent<T: LabelType>(b: &Built<T>) -> Result<(), String> {
    crate::universe::check_built(&Graph::new(b.labels.len(), &{
        let mut v = vec![];
        for a in b.af.iter_attacks() {
            v.push((b.index_of(a.attacker().label()).ok_or("unknown label")?, b.index_of(a.attacked().label()).ok_or("unknown label")?));
        }
        v
    }), b)
}

pub fn run(tier: Tier) -> i32 {
    let mut rep = Report::new("C06", tier);
    let thorough = tier == Tier::Thorough;
    // (a) matrix over U(<=3)
    let graphs = small_universe(3);
    let press = if thorough { vec![Presentation::Compact, Presentation::Hole, Presentation::Dup] } else { vec![Presentation::Compact] };
    let tasks: Vec<(usize, Presentation)> = (0..graphs.len()).flat_map(|i| press.iter().map(move |&p| (i, p))).collect();
    let acc = tasks
        .par_iter()
        .with_max_len(1)
        .map(|&(gi, p)| {
            let mut acc = Acc::default();
            let (name, g) = &graphs[gi];
            if RefAnswers::new(g).ext(Sem::PR).len() >= 2 {
                acc.nontrivial += 1;
            }
            let mut m = Matrix { name, g, pres: p, dev_bound: None, acc: &mut acc };
            with_presentation(g, p, &mut m);
            acc
        })
        .reduce(Acc::default, Acc::merge);
    rep.states += acc.stats.nodes;
    rep.transitions += acc.stats.edges;
    rep.traces += acc.cells;
    rep.evaluations += acc.cells;
    rep.distinct_nontrivial += acc.nontrivial;
    rep.extra.insert("part_a:configuration matrix on U(<=3)".into(), json!({"graphs": graphs.len(), "presentations": press.iter().map(|p| p.name()).collect::<Vec<_>>(), "groups (problem x argument)": acc.groups, "cells compared": acc.cells, "oracle_executions": acc.stats.execs}));
    for (_, (n, v)) in acc.violations {
        rep.n_violations += n - 1;
        rep.add_violation(v);
    }
    rep.machinery_errors.extend(acc.machinery);
    // the same matrix on duplicate-attack presentations of U(<=2) and on the hybrid-threshold members
    // of S (oracle default path only there): the encoders take different code paths on these
    {
        let mut gs: Vec<(String, Graph, Presentation, Option<usize>)> = small_universe(2).into_iter().map(|(n, g)| (n, g, Presentation::Dup, None)).collect();
        gs.extend(s_family().into_iter().filter(|(n, g)| g.n <= 9 && n.starts_with("S:prod")).map(|(n, g)| (n, g, Presentation::Compact, Some(0))));
        let acc = gs
            .par_iter()
            .with_max_len(1)
            .map(|(name, g, p, d)| {
                let mut acc = Acc::default();
                let mut m = Matrix { name, g, pres: *p, dev_bound: *d, acc: &mut acc };
                with_presentation(g, *p, &mut m);
                acc
            })
            .reduce(Acc::default, Acc::merge);
        rep.states += acc.stats.nodes;
        rep.transitions += acc.stats.edges;
        rep.traces += acc.cells;
        rep.evaluations += acc.cells;
        rep.extra.insert("part_a:configuration matrix on dup presentations of U(<=2) and on hybrid-threshold members of S".into(), json!({"graphs": gs.len(), "groups (problem x argument)": acc.groups, "cells compared": acc.cells}));
        for (_, (n, v)) in acc.violations {
            rep.n_violations += n - 1;
            rep.add_violation(v);
        }
        rep.machinery_errors.extend(acc.machinery);
    }
    // external-process cells (judged against the reference, hence against every other cell)
    if std::path::Path::new(crate::checks::c15::fake_sat()).exists() {
        let eg = graphs_for_external(thorough);
        let eacc = external_sweep(&eg, "c06ext");
        rep.traces += eacc.queries;
        rep.evaluations += eacc.queries;
        rep.extra.insert("part_a:external-process cells".into(), json!({"graphs": eg.len(), "queries_through_the_external_backend": eacc.queries, "sat_calls": eacc.instances}));
        for (_, (n, v)) in eacc.violations {
            if v.property == "C06" {
                rep.n_violations += n - 1;
                rep.add_violation(v);
            }
        }
    } else {
        rep.machinery_errors.push("fake_sat not built".into());
    }
    // (b) order
    let mut plans: Vec<(String, Vec<(String, Graph)>, Vec<Presentation>, usize, bool)> = vec![
        ("U(<=2): all sequences of <=3 queries, rich menu".into(), small_universe(2), vec![Presentation::Compact, Presentation::Hole], 3, true),
        ("U(3): all sequences of 2 queries".into(), crate::checks::static_checks::exact_universe(3), vec![Presentation::Compact], 2, thorough),
        ("S (<=9 arguments): all sequences of 2 queries (3 in thorough)".into(), s_family().into_iter().filter(|(_, g)| g.n <= 9).collect(), vec![Presentation::Compact], if thorough { 3 } else { 2 }, false),
    ];
    if thorough {
        plans.push(("U(3): all sequences of 3 queries, small menu".into(), crate::checks::static_checks::exact_universe(3), vec![Presentation::Hole], 3, false));
    }
    for (name, graphs, press, max_len, rich) in plans {
        let tasks: Vec<(usize, Presentation)> = (0..graphs.len()).flat_map(|i| press.iter().map(move |&p| (i, p))).collect();
        let acc = tasks
            .par_iter()
            .with_max_len(1)
            .map(|&(gi, p)| {
                let mut acc = Acc::default();
                let (gname, g) = &graphs[gi];
                let ra = RefAnswers::new(g);
                let mut o = Order { name: gname, g, pres: p, ra: &ra, max_len, rich_menu: rich, acc: &mut acc };
                with_presentation(g, p, &mut o);
                acc
            })
            .reduce(Acc::default, Acc::merge);
        rep.states += acc.sequences;
        rep.transitions += acc.queries_in_sequences;
        rep.traces += acc.sequences;
        rep.evaluations += acc.queries_in_sequences;
        rep.distinct_nontrivial += acc.sequences;
        rep.extra.insert(format!("part_b:{}", name), json!({"graphs": graphs.len(), "sequences_on_one_solver_object": acc.sequences, "queries": acc.queries_in_sequences}));
        if let Some(s) = acc.sample {
            rep.add_sample(s);
        }
        for (_, (n, v)) in acc.violations {
            rep.n_violations += n - 1;
            rep.add_violation(v);
        }
    }
    rep.rule = "(a) for every graph of U(<=3), problem and argument: the statuses of ALL cells {selectable encoders + library default} x {CaDiCaL, every leaf of the complete oracle choice tree} x {with, without certificate} must coincide (no reference involved), external-process cells are judged against the reference; (b) every sequence of <=3 (U(<=2)) / 2 (U(3), S) queries from a menu {SE, DC(a), DS(a), with/without certificate, lists} on ONE solver object per (solver type, encoder): every answer must have the status a fresh object gives and be valid, and everything observable of the framework (arguments, ids, attacks, counts) must be unchanged; states = sequences, transitions = queries; distinct_nontrivial = sequences + graphs with >=2 preferred extensions".into();
    rep.bounds = json!({"sequence_length": "3 on U(<=2), 2 on U(3) and S (3 in thorough)"});
    rep.assumptions = vec!["same trusted base as C01; the external backend is the harness's stand-in program".into()];
    rep.finish()
}


/// replay helper: re-run the matrix and the order exploration on one graph
pub fn replay_graph(g: &Graph, pres: Presentation, max_len: usize, rich: bool) -> Vec<(String, String)> {
    let mut acc = Acc::default();
    {
        let mut m = Matrix { name: "replay", g, pres, dev_bound: if g.n <= 3 { None } else { Some(0) }, acc: &mut acc };
        with_presentation(g, pres, &mut m);
    }
    {
        let ra = RefAnswers::new(g);
        let mut o = Order { name: "replay", g, pres, ra: &ra, max_len, rich_menu: rich, acc: &mut acc };
        with_presentation(g, pres, &mut o);
    }
    acc.violations.into_iter().map(|(k, (_, v))| (k, v.message)).collect()
}
