//! C05: the command-line tools print exactly the right answer, or none.
//! Process-level exhaustive sweep (E5): instance files x 21 problems x arguments x option
//! configurations of both binaries, and a finite menu of malformed invocations.

use crate::checks::c16::scratch_dir;
use crate::refmodel::{mask_to_vec, Graph, RefAnswers, Sem, ALL_SEMS};
use crate::report::{Report, Tier, Violation};
use crate::staticq::QKind;
use rayon::prelude::*;
use serde_json::{json, Value};
use std::collections::BTreeMap;
use std::path::{Path, PathBuf};
use std::process::{Command, Stdio};

fn repo_bin(name: &str) -> String {
    format!("{}/repo/release/{}", std::env::var("CVX_TARGET_DIR").unwrap_or_else(|_| format!("{}/target", crate::report::verif_dir())), name)
}
pub fn bin_solve() -> &'static str {
    static P: std::sync::OnceLock<String> = std::sync::OnceLock::new();
    P.get_or_init(|| repo_bin("crustabri"))
}
pub fn bin_iccma() -> &'static str {
    static P: std::sync::OnceLock<String> = std::sync::OnceLock::new();
    P.get_or_init(|| repo_bin("crustabri_iccma23"))
}
const APX_NAMES: [&str; 8] = ["a", "b", "c", "d", "e", "f", "g", "h"];

#[derive(Clone, Debug)]
pub struct Invocation {
    pub bin: &'static str,
    pub args: Vec<String>,
}

pub struct Run {
    pub code: Option<i32>,
    pub stdout: String,
}

/// run one process under a 60 s watchdog (a diverging binary must not hang the check); stdout goes
/// to a scratch file so that a large output cannot block the child
pub fn run(inv: &Invocation) -> Run {
    static SEQ: std::sync::atomic::AtomicUsize = std::sync::atomic::AtomicUsize::new(0);
    let k = SEQ.fetch_add(1, std::sync::atomic::Ordering::Relaxed);
    let out_path = scratch_dir("c05out").join(format!("out_{}_{}.txt", std::process::id(), k));
    let f = match std::fs::File::create(&out_path) {
        Ok(f) => f,
        Err(e) => return Run { code: None, stdout: format!("<scratch file error {}>", e) },
    };
    let mut cmd = Command::new(inv.bin);
    cmd.args(&inv.args).stdin(Stdio::null()).stderr(Stdio::null()).stdout(Stdio::from(f)).env("RUST_BACKTRACE", "0");
    // a runaway allocation in the binary ends as "no answer", not as an out-of-memory machine
    crate::mem::limit_child(&mut cmd);
    let child = cmd.spawn();
    let mut child = match child {
        Ok(c) => c,
        Err(e) => return Run { code: None, stdout: format!("<spawn error {}>", e) },
    };
    let start = std::time::Instant::now();
    let status = loop {
        match child.try_wait() {
            Ok(Some(st)) => break Some(st),
            Ok(None) => {
                if start.elapsed() > std::time::Duration::from_secs(60) {
                    let _ = child.kill();
                    let _ = child.wait();
                    break None;
                }
                std::thread::sleep(std::time::Duration::from_millis(2));
            }
            Err(_) => break None,
        }
    };
    let stdout = std::fs::read(&out_path).map(|b| String::from_utf8_lossy(&b).to_string()).unwrap_or_default();
    let _ = std::fs::remove_file(&out_path);
    match status {
        Some(st) => Run { code: st.code(), stdout },
        None => Run { code: None, stdout: format!("<no exit within 60 s> {}", stdout) },
    }
}

#[derive(Clone, Debug, PartialEq, Eq)]
pub enum AnsLine {
    Log,
    Status(bool),
    /// labels of a witness line
    Witness(Vec<String>),
    Other,
}

/// format: true = ICCMA'23 answers (`w 1 2`), false = Aspartix answers (`[a,b]`)
pub fn classify_line(l: &str, iccma: bool) -> AnsLine {
    if l.starts_with('!') {
        return AnsLine::Log;
    }
    if l == "YES" {
        return AnsLine::Status(true);
    }
    if l == "NO" {
        return AnsLine::Status(false);
    }
    if iccma {
        if l == "w" {
            return AnsLine::Witness(vec![]);
        }
        if let Some(rest) = l.strip_prefix("w ") {
            let toks: Vec<&str> = rest.split(' ').collect();
            if toks.iter().all(|t| !t.is_empty() && t.chars().all(|c| c.is_ascii_digit())) {
                return AnsLine::Witness(toks.iter().map(|s| s.to_string()).collect());
            }
        }
    } else if let Some(inner) = l.strip_prefix('[').and_then(|x| x.strip_suffix(']')) {
        if inner.is_empty() {
            return AnsLine::Witness(vec![]);
        }
        let toks: Vec<&str> = inner.split(',').collect();
        if toks.iter().all(|t| !t.is_empty() && t.chars().all(|c| c == '_' || c.is_ascii_alphanumeric())) {
            return AnsLine::Witness(toks.iter().map(|s| s.to_string()).collect());
        }
    }
    AnsLine::Other
}

/// does any stdout line look like an answer (in either format)?
pub fn has_answer_line(stdout: &str) -> Option<String> {
    for l in stdout.lines() {
        for fmt in [true, false] {
            match classify_line(l, fmt) {
                AnsLine::Status(_) | AnsLine::Witness(_) => return Some(l.to_string()),
                _ => {}
            }
        }
    }
    None
}

fn witness_mask(labels: &[String], iccma: bool, n: usize) -> Result<u32, String> {
    let mut m = 0u32;
    for l in labels {
        let idx = if iccma {
            match l.parse::<usize>() {
                Ok(v) if v >= 1 && v <= n => v - 1,
                _ => return Err(format!("witness member {:?} is not an argument of the framework", l)),
            }
        } else {
            match APX_NAMES.iter().position(|x| x == l) {
                Some(i) if i < n => i,
                _ => return Err(format!("witness member {:?} is not an argument of the framework", l)),
            }
        };
        if m >> idx & 1 == 1 {
            return Err(format!("witness lists {:?} twice", l));
        }
        m |= 1 << idx;
    }
    Ok(m)
}

/// judge the stdout / exit status of a valid invocation
pub fn judge_valid(ra: &RefAnswers, kind: QKind, sem: Sem, arg: Option<usize>, cert: bool, iccma_answers: bool, logging_on: bool, r: &Run) -> Result<(), (String, String)> {
    if r.code != Some(0) {
        return Err(("exit_status".into(), format!("exit status {:?} for a valid invocation; stdout {:?}", r.code, r.stdout)));
    }
    if !r.stdout.is_empty() && !r.stdout.ends_with('\n') {
        return Err(("format".into(), "stdout does not end with a newline".into()));
    }
    let mut lines = vec![];
    for l in r.stdout.lines() {
        match classify_line(l, iccma_answers) {
            AnsLine::Log => {
                if !logging_on {
                    return Err(("extra_output".into(), format!("log line on stdout although logging is off: {:?}", l)));
                }
            }
            AnsLine::Other => return Err(("extra_output".into(), format!("stdout line that is neither an answer nor a log line: {:?}", l))),
            a => lines.push(a),
        }
    }
    let n = ra.g.n;
    match kind {
        QKind::SE => {
            let fam = ra.ext(sem);
            if lines.len() != 1 {
                return Err(("format".into(), format!("expected exactly one answer line, got {:?}", lines)));
            }
            match &lines[0] {
                AnsLine::Status(false) => {
                    if !fam.is_empty() {
                        return Err(("wrong_answer".into(), format!("NO printed but {} extensions exist", fam.len())));
                    }
                }
                AnsLine::Witness(ls) => {
                    let m = witness_mask(ls, iccma_answers, n).map_err(|e| ("wrong_answer".to_string(), e))?;
                    if !fam.contains(&m) {
                        return Err(("wrong_answer".into(), format!("printed set {:?} is not a {} extension", mask_to_vec(m), sem.name())));
                    }
                }
                other => return Err(("format".into(), format!("unexpected answer line {:?} for SE", other))),
            }
        }
        QKind::DC | QKind::DS => {
            let a = arg.unwrap();
            let bit = 1u32 << a;
            let expected = if kind == QKind::DC { ra.credulous(sem, bit) } else { ra.skeptical(sem, bit) };
            if lines.is_empty() {
                return Err(("format".into(), "no answer line".into()));
            }
            let st = match &lines[0] {
                AnsLine::Status(b) => *b,
                other => return Err(("format".into(), format!("first answer line is {:?}, expected YES/NO", other))),
            };
            if st != expected {
                return Err(("wrong_answer".into(), format!("printed {} but the semantics dictate {}", if st { "YES" } else { "NO" }, if expected { "YES" } else { "NO" })));
            }
            let promised = cert && ((kind == QKind::DC) == st);
            match (promised, lines.len()) {
                (false, 1) => {}
                (true, 2) => match &lines[1] {
                    AnsLine::Witness(ls) => {
                        let m = witness_mask(ls, iccma_answers, n).map_err(|e| ("wrong_certificate".to_string(), e))?;
                        let csem = if kind == QKind::DC && sem == Sem::PR { Sem::CO } else { sem };
                        if !ra.ext(csem).contains(&m) {
                            return Err(("wrong_certificate".into(), format!("certificate {:?} is not a {} extension", mask_to_vec(m), csem.name())));
                        }
                        if (kind == QKind::DC) != (m & bit != 0) {
                            return Err(("wrong_certificate".into(), format!("certificate {:?} {} the queried argument", mask_to_vec(m), if kind == QKind::DC { "misses" } else { "contains" })));
                        }
                    }
                    other => return Err(("format".into(), format!("second answer line is {:?}, expected a witness", other))),
                },
                (true, 1) => return Err(("wrong_certificate".into(), "certificate requested and promised but not printed".into())),
                (_, k) => return Err(("format".into(), format!("{} answer lines where {} expected", k, if promised { 2 } else { 1 }))),
            }
        }
    }
    Ok(())
}

fn write_instances(dir: &Path, idx: usize, g: &Graph) -> (PathBuf, PathBuf) {
    let p1 = dir.join(format!("g{}.af", idx));
    let p2 = dir.join(format!("g{}.apx", idx));
    std::fs::write(&p1, crate::universe::iccma_text(g)).unwrap();
    let names: Vec<String> = APX_NAMES.iter().take(g.n).map(|s| s.to_string()).collect();
    std::fs::write(&p2, crate::universe::apx_text(g, &names)).unwrap();
    (p1, p2)
}

fn spell(problem: &str, variant: usize) -> String {
    match variant {
        0 => problem.to_string(),
        1 => problem.to_lowercase(),
        _ => problem.chars().enumerate().map(|(i, c)| if i % 2 == 0 { c.to_ascii_lowercase() } else { c.to_ascii_uppercase() }).collect(),
    }
}

#[derive(Default)]
struct Acc {
    processes: u64,
    valid: u64,
    malformed: u64,
    outcomes: std::collections::BTreeSet<String>,
    violations: BTreeMap<String, (u64, Violation)>,
    sample: Vec<Value>,
}

impl Acc {
    fn merge(mut self, o: Acc) -> Acc {
        self.processes += o.processes;
        self.valid += o.valid;
        self.malformed += o.malformed;
        for x in o.outcomes {
            if self.outcomes.len() < 500 {
                self.outcomes.insert(x);
            }
        }
        for (k, (n, v)) in o.violations {
            let e = self.violations.entry(k).or_insert((0, v));
            e.0 += n;
        }
        for s in o.sample {
            if self.sample.len() < 3 {
                self.sample.push(s);
            }
        }
        self
    }
    fn add(&mut self, key: String, msg: String, inv: &Invocation, r: &Run) {
        self.add_expect(key, msg, inv, r, json!({"kind": "malformed"}))
    }
    fn add_expect(&mut self, key: String, msg: String, inv: &Invocation, r: &Run, expect: Value) {
        // keep the content of the instance file so that the case can be replayed later
        let file = inv.args.iter().position(|a| a == "-f").and_then(|i| inv.args.get(i + 1)).cloned();
        let content = file.as_ref().and_then(|f| std::fs::read(f).ok());
        let v = Violation {
            property: "C05".into(),
            key: key.clone(),
            message: format!("{} {}: {}", inv.bin.rsplit('/').next().unwrap(), inv.args.join(" "), msg),
            case: json!({"engine": "cli", "bin": inv.bin, "args": inv.args, "stdout": r.stdout, "exit": r.code, "expect": expect, "file": file, "file_content": content}),
        };
        let e = self.violations.entry(key).or_insert((0, v));
        e.0 += 1;
    }
}

/// all valid invocations for one graph; `full`: the complete option product, otherwise a reduced one
fn sweep_graph(dir: &Path, idx: usize, g: &Graph, level: u8, spellings: bool) -> Acc {
    let full = level >= 2;
    let mut acc = Acc::default();
    let ra = RefAnswers::new(g);
    let (f_af, f_apx) = write_instances(dir, idx, g);
    for kind in [QKind::SE, QKind::DC, QKind::DS] {
        for sem in ALL_SEMS {
            let problem = format!("{}-{}", kind.name(), sem.name());
            let args: Vec<Option<usize>> = if kind == QKind::SE { vec![None] } else { (0..g.n).map(Some).collect() };
            for arg in args {
                let mut configs: Vec<(Invocation, bool, bool, bool)> = vec![]; // (inv, cert, iccma answers, logging on)
                let spell_variants = if spellings { 3 } else { 1 };
                for sv in 0..spell_variants {
                    let p = spell(&problem, sv);
                    // the ICCMA'23 wrapper
                    let mut a = vec!["-f".to_string(), f_af.display().to_string(), "-p".to_string(), p.clone()];
                    if let Some(x) = arg {
                        a.push("-a".into());
                        a.push((x + 1).to_string());
                    }
                    configs.push((Invocation { bin: bin_iccma(), args: a }, true, true, false));
                    // crustabri solve
                    let readers: Vec<(Option<&str>, &PathBuf, bool)> = if full { vec![(Some("apx"), &f_apx, false), (Some("iccma23"), &f_af, true), (None, &f_af, true)] } else { vec![(Some("apx"), &f_apx, false), (None, &f_af, true)] };
                    for (ri, (reader, file, iccma)) in readers.into_iter().enumerate() {
                        // reduced levels rotate the encoding with the problem / reader instead of taking the product
                        let rot = [Some("aux_var"), Some("exp"), Some("hybrid")][(sem as usize + ri + arg.unwrap_or(0)) % 3];
                        let encs: Vec<Option<&str>> = if full { vec![None, Some("aux_var"), Some("exp"), Some("hybrid")] } else if sv == 0 { vec![rot] } else { vec![None] };
                        for enc in encs {
                            let certs: Vec<bool> = if level == 0 { vec![(sem as usize + ri) % 2 == 0] } else { vec![false, true] };
                            for cert in certs {
                                let logs: Vec<&str> = if full { vec!["off", "info"] } else if level == 1 && ri == 0 && !cert { vec!["off", "info"] } else { vec!["off"] };
                                for log in logs {
                                    let mut a = vec!["solve".to_string(), "-f".into(), file.display().to_string(), "-p".into(), p.clone(), "--logging-level".into(), log.into()];
                                    if let Some(r) = reader {
                                        a.push("-r".into());
                                        a.push(r.into());
                                    }
                                    if let Some(e) = enc {
                                        a.push("--encoding".into());
                                        a.push(e.into());
                                    }
                                    if cert {
                                        a.push("-c".into());
                                    }
                                    if let Some(x) = arg {
                                        a.push("-a".into());
                                        a.push(if iccma { (x + 1).to_string() } else { APX_NAMES[x].to_string() });
                                    }
                                    configs.push((Invocation { bin: bin_solve(), args: a }, cert, iccma, log != "off"));
                                }
                            }
                        }
                    }
                }
                // the same problem through an external SAT backend with a different model preference than
                // CaDiCaL's (the stand-in program reports the lexicographically smallest / largest model)
                if std::path::Path::new(crate::checks::c15::fake_sat()).exists() {
                    let prefer = if (sem as usize + arg.unwrap_or(0)) % 2 == 0 { "min" } else { "max" };
                    let mut a = vec!["solve".to_string(), "-f".into(), f_af.display().to_string(), "-p".into(), problem.clone(), "--logging-level".into(), "off".into(), "-c".into()];
                    if let Some(x) = arg {
                        a.push("-a".into());
                        a.push((x + 1).to_string());
                    }
                    a.extend(["--external-sat-solver".to_string(), crate::checks::c15::fake_sat().to_string(), "--external-sat-solver-opt".into(), format!("prefer={}", prefer)]);
                    configs.push((Invocation { bin: bin_solve(), args: a }, true, true, false));
                }
                for (inv, cert, iccma, logging) in configs {
                    let r = run(&inv);
                    acc.processes += 1;
                    acc.valid += 1;
                    if acc.outcomes.len() < 400 {
                        acc.outcomes.insert(format!("{} {}", problem, r.stdout.lines().filter(|l| !l.starts_with('!')).collect::<Vec<_>>().join("|")));
                    }
                    if acc.sample.len() < 2 && cert && kind != QKind::SE && g.n >= 2 {
                        acc.sample.push(json!({"cmd": format!("{} {}", inv.bin.rsplit('/').next().unwrap(), inv.args.join(" ")), "graph": g.describe(), "stdout": r.stdout, "exit": r.code}));
                    }
                    if let Err((what, msg)) = judge_valid(&ra, kind, sem, arg, cert, iccma, logging, &r) {
                        acc.add_expect(format!("valid;bin={};problem={};what={}", inv.bin.rsplit('/').next().unwrap(), problem, what), format!("on {}: {}", g.describe(), msg), &inv, &r,
                            json!({"kind": "valid", "graph": g.to_json(), "qkind": kind.name(), "sem": sem.name(), "arg": arg, "cert": cert, "iccma": iccma, "logging": logging}));
                    }
                }
            }
        }
    }
    acc
}

/// Big instances through both binaries (1000+ arguments, four- and five-digit indexes, 14-character
/// labels, witness lines of hundreds of members, a 70 KB comment line): every printed witness is
/// verified directly on the graph, every bare status is compared with the library called in-process.
pub fn big_instances_messages(thorough: bool) -> Vec<String> {
    let dir = scratch_dir("c05big_replay");
    big_instances(&dir, thorough).violations.into_iter().map(|(_, (_, v))| v.message).collect()
}

fn big_instances(dir: &Path, thorough: bool) -> Acc {
    use crate::checks::c11::{big_query, family, status_of, Big, BigOut};
    use crate::universe::{build_usize, Presentation};
    let cells: Vec<(&str, usize)> = if thorough { vec![("chain", 1000), ("star", 1100), ("mutual_pairs", 1200), ("tree", 1500), ("even_ring", 1030), ("odd_ring", 1025), ("ladder", 1300)] } else { vec![("chain", 1000), ("star", 1100), ("mutual_pairs", 1200)] };
    let sems = [Sem::GR, Sem::CO, Sem::PR, Sem::ST];
    let mut tasks: Vec<(usize, bool, QKind, Sem, Option<usize>)> = vec![];
    for (ci, (fam, size)) in cells.iter().enumerate() {
        let n = family(fam, *size).n;
        for apx in [false, true] {
            for sem in sems {
                tasks.push((ci, apx, QKind::SE, sem, None));
                for x in if thorough { vec![0, n / 2, n - 1] } else { vec![n / 2] } {
                    tasks.push((ci, apx, QKind::DC, sem, Some(x)));
                    tasks.push((ci, apx, QKind::DS, sem, Some(x)));
                }
            }
        }
    }
    let graphs: Vec<Graph> = cells.iter().map(|(f, s)| family(f, *s)).collect();
    let label = |i: usize| format!("argument_{:05}", i);
    let files: Vec<(PathBuf, PathBuf)> = graphs
        .iter()
        .enumerate()
        .map(|(ci, g)| {
            let p1 = dir.join(format!("big{}.af", ci));
            let p2 = dir.join(format!("big{}.apx", ci));
            let mut t = crate::universe::iccma_text(g);
            if ci == 0 {
                // a comment line of 70 000 bytes right after the header
                t = t.replacen('\n', &format!("\n# {}\n", "x".repeat(70_000)), 1);
            }
            std::fs::write(&p1, t).unwrap();
            std::fs::write(&p2, crate::universe::apx_text(g, &(0..g.n).map(label).collect::<Vec<_>>())).unwrap();
            (p1, p2)
        })
        .collect();
    tasks
        .par_iter()
        .with_max_len(1)
        .map(|&(ci, apx, kind, sem, arg)| {
            let mut acc = Acc::default();
            let g = &graphs[ci];
            let big = Big::new(g);
            let problem = format!("{}-{}", kind.name(), sem.name());
            let inv = if apx {
                let mut a = vec!["solve".to_string(), "-f".into(), files[ci].1.display().to_string(), "-r".into(), "apx".into(), "-p".into(), problem.clone(), "--logging-level".into(), "off".into(), "-c".into()];
                if let Some(x) = arg {
                    a.extend(["-a".to_string(), label(x)]);
                }
                Invocation { bin: bin_solve(), args: a }
            } else {
                let mut a = vec!["-f".to_string(), files[ci].0.display().to_string(), "-p".into(), problem.clone()];
                if let Some(x) = arg {
                    a.extend(["-a".to_string(), (x + 1).to_string()]);
                }
                Invocation { bin: bin_iccma(), args: a }
            };
            let r = run(&inv);
            acc.processes += 1;
            acc.valid += 1;
            let mut fail = |what: &str, msg: String| {
                let shown: String = r.stdout.chars().take(200).collect();
                acc.add_expect(
                    format!("big;bin={};problem={};what={}", inv.bin.rsplit('/').next().unwrap(), problem, what),
                    format!("{}({}) [{}] {:?}: {} (stdout starts {:?}, exit {:?})", cells[ci].0, cells[ci].1, if apx { "apx" } else { "iccma23" }, arg, msg, shown, r.code),
                    &inv,
                    &Run { code: r.code, stdout: shown.clone() },
                    json!({"kind": "big", "family": cells[ci].0, "size": cells[ci].1, "apx": apx, "qkind": kind.name(), "sem": sem.name(), "arg": arg}),
                );
            };
            if r.code != Some(0) {
                fail("exit_status", "non-zero exit status / no regular exit on a well-formed big instance".into());
                return acc;
            }
            // parse: optional status line, optional witness line, nothing else
            let mut status: Option<bool> = None;
            let mut witness: Option<Vec<usize>> = None;
            for l in r.stdout.lines() {
                match classify_line(l, !apx) {
                    AnsLine::Status(b) if status.is_none() && witness.is_none() => status = Some(b),
                    AnsLine::Witness(ls) if witness.is_none() => {
                        let mut idx = vec![];
                        for t in ls {
                            let v = if apx { t.strip_prefix("argument_").and_then(|d| d.parse::<usize>().ok()) } else { t.parse::<usize>().ok().and_then(|v| v.checked_sub(1)) };
                            match v {
                                Some(i) if i < g.n => idx.push(i),
                                _ => {
                                    fail("witness_member", format!("witness member {:?} is not an argument of the instance", t));
                                    return acc;
                                }
                            }
                        }
                        let mut d = idx.clone();
                        d.sort();
                        d.dedup();
                        if d.len() != idx.len() {
                            fail("witness_duplicate", "an argument is listed twice".into());
                            return acc;
                        }
                        witness = Some(idx);
                    }
                    _ => {
                        fail("stdout_shape", format!("unexpected line {:?}", l.chars().take(80).collect::<String>()));
                        return acc;
                    }
                }
            }
            let is_ext = |s: &[bool]| match sem {
                Sem::GR => *s == big.grounded()[..],
                Sem::ST => big.stable(s),
                _ => big.complete(s), // CO; PR: a complete extension is what can be verified directly
            };
            // the library, in-process, on the same graph built through the API
            let b = build_usize(g, Presentation::Compact);
            let lib = big_query(&b, kind, sem, arg, false);
            let lib_status = status_of(&lib);
            if matches!(lib, BigOut::Panic(_)) {
                return acc; // the library's own behaviour at this size is C11's subject
            }
            match kind {
                QKind::SE => match (&witness, status) {
                    (Some(w), None) => {
                        if !is_ext(&big.set(w)) {
                            fail("witness_invalid", format!("the printed set of {} arguments is not a {} extension", w.len(), sem.name()));
                        }
                    }
                    (None, Some(false)) => {
                        if lib_status != Some(false) {
                            fail("status_differs", "NO printed, the library finds an extension".into());
                        }
                    }
                    _ => fail("stdout_shape", "expected one witness line or NO".into()),
                },
                _ => match status {
                    None => fail("stdout_shape", "no status line".into()),
                    Some(st) => {
                        if Some(st) != lib_status {
                            fail("status_differs", format!("printed {}, the library answers {:?}", if st { "YES" } else { "NO" }, lib_status));
                        }
                        let promised = (kind == QKind::DC) == st;
                        match (&witness, promised) {
                            (Some(w), true) => {
                                let s = big.set(w);
                                let x = arg.unwrap();
                                if !is_ext(&s) || s[x] != (kind == QKind::DC) {
                                    fail("witness_invalid", format!("the certificate of {} arguments is not a {} extension {} the queried argument", w.len(), sem.name(), if kind == QKind::DC { "containing" } else { "omitting" }));
                                }
                            }
                            (None, true) => fail("certificate_missing", "no certificate where one is promised".into()),
                            (Some(_), false) => fail("certificate_unexpected", "a certificate where none is due".into()),
                            (None, false) => {}
                        }
                    }
                },
            }
            acc
        })
        .reduce(Acc::default, Acc::merge)
}

fn malformed_invocations(dir: &Path) -> Vec<(String, Invocation)> {
    let g = Graph::new(2, &[(0, 1)]);
    let (good_af, good_apx) = write_instances(dir, 9000, &g);
    let good_af = good_af.display().to_string();
    let good_apx = good_apx.display().to_string();
    let mut bad_files: Vec<(String, String, &str)> = vec![]; // (class, path, reader)
    let mk = |name: &str, content: &str| -> String {
        let p = dir.join(name);
        std::fs::write(&p, content).unwrap();
        p.display().to_string()
    };
    bad_files.push(("nonexistent".into(), dir.join("does_not_exist.af").display().to_string(), "iccma23"));
    bad_files.push(("directory".into(), dir.display().to_string(), "iccma23"));
    bad_files.push(("iccma_missing_header".into(), mk("b1.af", "1 2\n"), "iccma23"));
    bad_files.push(("iccma_bad_header".into(), mk("b2.af", "p aff 2\n1 2\n"), "iccma23"));
    bad_files.push(("iccma_index_out_of_range".into(), mk("b3.af", "p af 2\n1 3\n"), "iccma23"));
    bad_files.push(("iccma_index_zero".into(), mk("b4.af", "p af 2\n0 1\n"), "iccma23"));
    bad_files.push(("iccma_wrong_arity".into(), mk("b5.af", "p af 2\n1 2 1\n"), "iccma23"));
    bad_files.push(("iccma_content_after_blank".into(), mk("b6.af", "p af 2\n\n1 2\n"), "iccma23"));
    bad_files.push(("iccma_empty".into(), mk("b7.af", ""), "iccma23"));
    bad_files.push(("iccma_header_after_blank".into(), mk("b11.af", "\np af 2\n"), "iccma23"));
    bad_files.push(("iccma_attack_after_trailing_blank".into(), mk("b12.af", "p af 2\n1 2\n\n2 1\n"), "iccma23"));
    bad_files.push(("apx_undeclared".into(), mk("b8.apx", "arg(a).\natt(a,b).\n"), "apx"));
    bad_files.push(("apx_arg_after_att".into(), mk("b9.apx", "arg(a).\natt(a,a).\narg(b).\n"), "apx"));
    bad_files.push(("apx_wrong_arity".into(), mk("b10.apx", "arg(a).\narg(b).\natt(a).\n"), "apx"));
    bad_files.push(("wrong_reader_apx_as_iccma".into(), good_apx.clone(), "iccma23"));
    bad_files.push(("wrong_reader_iccma_as_apx".into(), good_af.clone(), "apx"));
    let mut out: Vec<(String, Invocation)> = vec![];
    let problems_ok = ["SE-ST", "DC-CO", "DS-PR"];
    for (class, path, reader) in &bad_files {
        for p in problems_ok {
            let mut a = vec!["solve".to_string(), "-f".into(), path.clone(), "-p".into(), p.into(), "-r".into(), reader.to_string(), "--logging-level".into(), "off".into()];
            if !p.starts_with("SE") {
                a.push("-a".into());
                a.push(if *reader == "apx" { "a".into() } else { "1".into() });
            }
            out.push((format!("file:{}", class), Invocation { bin: bin_solve(), args: a.clone() }));
            let mut b = a.clone();
            b[8] = "info".into();
            out.push((format!("file:{}", class), Invocation { bin: bin_solve(), args: b }));
            if *reader == "iccma23" {
                let mut w = vec!["-f".to_string(), path.clone(), "-p".into(), p.into()];
                if !p.starts_with("SE") {
                    w.push("-a".into());
                    w.push("1".into());
                }
                out.push((format!("file:{}", class), Invocation { bin: bin_iccma(), args: w }));
            }
        }
    }
    // problems
    for (class, p) in [("unknown_query", Some("XX-ST")), ("unknown_semantics", Some("SE-XX")), ("no_hyphen", Some("SEST")), ("empty", Some("")), ("trailing_garbage", Some("SE-ST-X")), ("near_miss", Some("SE-S")), ("near_miss2", Some("DCCO")), ("missing", None)] {
        for (bin, pre) in [(bin_solve(), vec!["solve"]), (bin_iccma(), vec![])] {
            for file in [&good_af] {
                let mut a: Vec<String> = pre.iter().map(|s| s.to_string()).collect();
                a.extend(["-f".to_string(), file.clone()]);
                if let Some(p) = p {
                    a.push("-p".into());
                    a.push(p.into());
                }
                a.extend(["-a".to_string(), "1".into()]);
                out.push((format!("problem:{}", class), Invocation { bin, args: a.clone() }));
                if bin == bin_solve() {
                    let mut b = a.clone();
                    b.extend(["--logging-level".to_string(), "off".into()]);
                    out.push((format!("problem:{}", class), Invocation { bin, args: b }));
                }
            }
        }
    }
    // arguments
    for (class, a_opt) in [("missing", vec![]), ("unknown", vec!["-a", "7"]), ("zero", vec!["-a", "0"]), ("n_plus_one", vec!["-a", "3"]), ("negative", vec!["-a", "-1"]), ("label_of_other_format", vec!["-a", "a"]), ("empty", vec!["-a", ""])] {
        for p in ["DC-CO", "DS-PR", "DC-ST", "DS-STG", "DC-ID", "DS-GR"] {
            for (bin, pre) in [(bin_solve(), vec!["solve"]), (bin_iccma(), vec![])] {
                let mut a: Vec<String> = pre.iter().map(|s| s.to_string()).collect();
                a.extend(["-f".to_string(), good_af.clone(), "-p".into(), p.into()]);
                a.extend(a_opt.iter().map(|s| s.to_string()));
                out.push((format!("argument:{}", class), Invocation { bin, args: a.clone() }));
                if bin == bin_solve() {
                    let mut b = a.clone();
                    b.extend(["--logging-level".to_string(), "off".into(), "-c".into()]);
                    out.push((format!("argument:{}", class), Invocation { bin, args: b }));
                }
            }
        }
        // Aspartix: unknown label
        if class == "unknown" || class == "missing" {
            let mut a = vec!["solve".to_string(), "-f".into(), good_apx.clone(), "-r".into(), "apx".into(), "-p".into(), "DC-CO".into()];
            if class == "unknown" {
                a.extend(["-a".to_string(), "zz".into()]);
            }
            out.push((format!("argument:{}", class), Invocation { bin: bin_solve(), args: a }));
        }
    }
    // options
    out.push(("option:unknown_option".into(), Invocation { bin: bin_solve(), args: vec!["solve".into(), "-f".into(), good_af.clone(), "-p".into(), "SE-ST".into(), "--frobnicate".into()] }));
    out.push(("option:unknown_option".into(), Invocation { bin: bin_iccma(), args: vec!["-f".into(), good_af.clone(), "-p".into(), "SE-ST".into(), "--frobnicate".into()] }));
    out.push(("option:unknown_subcommand".into(), Invocation { bin: bin_solve(), args: vec!["resolve".into(), "-f".into(), good_af.clone(), "-p".into(), "SE-ST".into()] }));
    out.push(("option:no_subcommand".into(), Invocation { bin: bin_solve(), args: vec!["-f".into(), good_af.clone(), "-p".into(), "SE-ST".into()] }));
    out.push(("option:unknown_encoding".into(), Invocation { bin: bin_solve(), args: vec!["solve".into(), "-f".into(), good_af.clone(), "-p".into(), "SE-PR".into(), "--encoding".into(), "fast".into()] }));
    out.push(("option:unknown_reader".into(), Invocation { bin: bin_solve(), args: vec!["solve".into(), "-f".into(), good_af.clone(), "-p".into(), "SE-PR".into(), "-r".into(), "tgf".into()] }));
    out.push(("option:unsupported_reader".into(), Invocation { bin: bin_solve(), args: vec!["solve".into(), "-f".into(), good_af.clone(), "-p".into(), "SE-PR".into(), "-r".into(), "iccma23_aba".into()] }));
    out.push(("option:missing_file_option".into(), Invocation { bin: bin_solve(), args: vec!["solve".into(), "-p".into(), "SE-ST".into()] }));
    out.push(("option:missing_file_option".into(), Invocation { bin: bin_iccma(), args: vec!["-p".into(), "SE-ST".into()] }));
    out.push(("option:external_solver_missing".into(), Invocation { bin: bin_solve(), args: vec!["solve".into(), "-f".into(), good_af.clone(), "-p".into(), "SE-ST".into(), "--external-sat-solver".into(), "/nonexistent/solver".into(), "--logging-level".into(), "off".into()] }));
    out
}

fn check_problems_listing(acc: &mut Acc) {
    let expected: std::collections::BTreeSet<String> = ["SE", "DC", "DS"].iter().flat_map(|q| ALL_SEMS.iter().map(move |s| format!("{}-{}", q, s.name()))).collect();
    for inv in [
        Invocation { bin: bin_iccma(), args: vec!["--problems".into()] },
        Invocation { bin: bin_solve(), args: vec!["problems".into(), "--logging-level".into(), "off".into()] },
        Invocation { bin: bin_solve(), args: vec!["problems".into()] },
    ] {
        let r = run(&inv);
        acc.processes += 1;
        let listing: Vec<&str> = r.stdout.lines().filter(|l| !l.starts_with('!')).collect();
        let ok = r.code == Some(0)
            && listing.len() == 1
            && listing[0].strip_prefix('[').and_then(|x| x.strip_suffix(']')).map(|inner| {
                let items: Vec<String> = inner.split(',').map(|s| s.to_string()).collect();
                let set: std::collections::BTreeSet<String> = items.iter().cloned().collect();
                set == expected && items.len() == 21
            }) == Some(true);
        if !ok {
            acc.add("problems_listing".into(), format!("the listing is not exactly the 21 problems: exit {:?}, stdout {:?}", r.code, r.stdout), &inv, &r);
        }
    }
}

pub fn run_check(tier: Tier) -> i32 {
    let mut rep = Report::new("C05", tier);
    let thorough = tier == Tier::Thorough;
    if !Path::new(bin_solve()).exists() || !Path::new(bin_iccma()).exists() {
        rep.machinery_errors.push("repository binaries not built (run ./check or ./setup.sh)".into());
        return rep.finish();
    }
    let dir = scratch_dir("c05");
    // graphs: U(<=2) with the full option product; 3-argument classes with a reduced product
    let small: Vec<Graph> = crate::universe::universe_upto(2);
    let iso3: Vec<Graph> = crate::universe::iso_representatives(3);
    let mut tasks: Vec<(usize, Graph, u8, bool)> = vec![];
    for (gi, g) in small.into_iter().enumerate() {
        // quick: every other 2-argument framework
        if !thorough && g.n == 2 && gi % 2 == 1 && g.att != vec![(0, 1)] {
            continue;
        }
        // thorough: full product everywhere; quick: full on <=1 argument, reduced on 2 arguments
        let level = if thorough || g.n <= 1 { 2 } else { 1 };
        let spell = thorough || (g.n == 2 && g.att == vec![(0, 1)]);
        tasks.push((tasks.len(), g, level, spell));
    }
    let step = if thorough { 1 } else { 20 };
    for (i, g) in iso3.into_iter().enumerate() {
        if i % step == 7 % step {
            tasks.push((tasks.len(), g, if thorough { 1 } else { 0 }, false));
        }
    }
    // a chain (defended arguments inside one component) and a chain next to an isolated argument
    tasks.push((tasks.len(), crate::universe::chain(3), 1, false));
    tasks.push((tasks.len(), crate::universe::chain(4).union(&Graph::new(1, &[])), 0, false));
    for (n, g) in crate::universe::family_s() {
        if (n == "floating" || n == "ring3+pairs2" || (thorough && g.n <= 8)) && g.n <= 8 {
            tasks.push((tasks.len(), g, if thorough { 1 } else { 0 }, false));
        }
    }
    let n_graphs = tasks.len();
    let acc = tasks.par_iter().with_max_len(1).map(|(i, g, level, spell)| sweep_graph(&dir, *i, g, *level, *spell)).reduce(Acc::default, Acc::merge);
    let mut total = acc;
    // big instances
    let bacc = big_instances(&dir, thorough);
    let n_big = bacc.processes;
    total = total.merge(bacc);
    // malformed invocations
    let mal = malformed_invocations(&dir);
    let n_mal_classes = mal.iter().map(|(c, _)| c.clone()).collect::<std::collections::BTreeSet<_>>().len();
    let macc = mal
        .par_iter()
        .map(|(class, inv)| {
            let mut acc = Acc::default();
            let r = run(inv);
            acc.processes += 1;
            acc.malformed += 1;
            if r.code == Some(0) {
                acc.add(format!("malformed;class={};what=exit_status_zero", class), format!("malformed invocation ({}) exits with status 0; stdout {:?}", class, r.stdout), inv, &r);
            } else if r.code.is_none() {
                acc.add(format!("malformed;class={};what=killed_by_signal", class), format!("malformed invocation ({}) was killed by a signal", class), inv, &r);
            }
            if let Some(l) = has_answer_line(&r.stdout) {
                acc.add(format!("malformed;class={};what=answer_printed", class), format!("malformed invocation ({}) prints the answer line {:?}", class, l), inv, &r);
            }
            acc
        })
        .reduce(Acc::default, Acc::merge);
    total = total.merge(macc);
    check_problems_listing(&mut total);
    // undecodable bytes confined to a comment line: either an error without answer, or the answer
    // of the whole framework (the rest of the file must not be silently dropped)
    {
        let g = Graph::new(3, &[(0, 1), (1, 2)]);
        let ra = RefAnswers::new(&g);
        let p = dir.join("latin1_comment.af");
        std::fs::write(&p, b"p af 3\n# caf\xe9\n1 2\n2 3\n".to_vec()).unwrap();
        for (kind, sem, arg) in [(QKind::SE, Sem::GR, None), (QKind::DC, Sem::CO, Some(2usize)), (QKind::DS, Sem::PR, Some(1usize)), (QKind::SE, Sem::ST, None)] {
            let problem = format!("{}-{}", kind.name(), sem.name());
            for bin in [bin_iccma(), bin_solve()] {
                let mut a: Vec<String> = if bin == bin_solve() { vec!["solve".into(), "--logging-level".into(), "off".into(), "-c".into()] } else { vec![] };
                a.extend(["-f".to_string(), p.display().to_string(), "-p".into(), problem.clone()]);
                if let Some(x) = arg {
                    a.extend(["-a".to_string(), (x + 1).to_string()]);
                }
                let inv = Invocation { bin, args: a };
                let r = run(&inv);
                total.processes += 1;
                if r.code == Some(0) {
                    if let Err((what, msg)) = judge_valid(&ra, kind, sem, arg, true, true, false, &r) {
                        total.add_expect(format!("undecodable_comment;problem={};what={}", problem, what), format!("instance with an undecodable byte in a comment line was accepted but answered for another framework: {}", msg), &inv, &r,
                            json!({"kind": "valid_or_error", "graph": g.to_json(), "qkind": kind.name(), "sem": sem.name(), "arg": arg, "cert": true, "iccma": true, "logging": false}));
                    }
                } else if let Some(l) = has_answer_line(&r.stdout) {
                    total.add(format!("undecodable_comment;problem={};what=answer_printed", problem), format!("non-zero exit but the answer line {:?} was printed", l), &inv, &r);
                }
            }
        }
    }
    rep.states = total.processes;
    rep.transitions = total.processes;
    rep.traces = total.processes;
    rep.evaluations = total.processes;
    rep.distinct_nontrivial = total.outcomes.len() as u64 + n_mal_classes as u64;
    rep.extra.insert("space".into(), json!({"graphs": n_graphs, "processes": total.processes, "valid_invocations": total.valid, "malformed_invocations": total.malformed, "malformed_classes": n_mal_classes, "big_instance_processes": n_big, "distinct_answer_texts": total.outcomes.len()}));
    for s in total.sample {
        rep.add_sample(s);
    }
    for (_, (n, v)) in total.violations {
        rep.n_violations += n - 1;
        rep.add_violation(v);
    }
    rep.rule = "every (instance file, problem, argument, option configuration) of the listed product is run as a real process of crustabri / crustabri_iccma23; stdout is parsed with the answer grammar and judged semantically by the reference model (status, witness membership in the reference family, certificate rules), exit status must be 0 and nothing but answer lines may appear when logging is off; every malformed invocation of a finite menu must exit non-zero without any line that parses as an answer; the --problems listing must be exactly the 21 accepted problems (accepted in three spellings); states = transitions = processes; distinct_nontrivial = distinct (problem, answer text) pairs + malformed classes".into();
    rep.bounds = json!({"files": "thorough: U(<=2) with the full option product (3 reader settings x 4 encodings x certificate x logging, both binaries), all 104 isomorphism classes of U(3) and S (<=8 arguments) with a reduced product; quick: full product on U(<=1), reduced (encodings rotated) on U(2), minimal on 6 three-argument classes and 2 members of S"});
    rep.assumptions = vec!["log lines (starting with '!') and usage text are not answers".into()];
    rep.finish()
}
