//! C08 / C09: dynamic solvers under all bounded update / query histories (E2), with the shared SAT
//! solver either CaDiCaL or the controlled oracle (E1).

use crate::choicesat::{explore, Exec, ExploreCfg, ExploreStats, FvPolicy};
use crate::dynamic::*;
use crate::refmodel::Graph;
use crate::report::{Report, Tier, Violation};
use crate::staticq::cadical_factory;
use rayon::prelude::*;
use serde_json::{json, Value};
use std::collections::BTreeMap;

#[derive(Clone, Debug)]
pub enum Backend {
    Cadical,
    Choice(ExploreCfg),
}

#[derive(Default)]
pub struct DynAcc {
    pub histories: u64,
    pub history_nodes: u64,
    pub executions: u64,
    pub stats: ExploreStats,
    pub with_removal_and_query: u64,
    pub outcomes: std::collections::BTreeSet<String>,
    /// (property, key) -> (count, shortest witness)
    pub violations: BTreeMap<(String, String), (u64, usize, Violation)>,
    pub samples: Vec<Value>,
    pub machinery: Vec<String>,
}

impl DynAcc {
    pub fn merge(mut self, o: DynAcc) -> DynAcc {
        self.histories += o.histories;
        self.history_nodes += o.history_nodes;
        self.executions += o.executions;
        self.stats.add(&o.stats);
        self.with_removal_and_query += o.with_removal_and_query;
        for x in o.outcomes {
            if self.outcomes.len() < 500 {
                self.outcomes.insert(x);
            }
        }
        for (k, (n, len, v)) in o.violations {
            match self.violations.get_mut(&k) {
                None => {
                    self.violations.insert(k, (n, len, v));
                }
                Some(e) => {
                    e.0 += n;
                    if len < e.1 {
                        e.1 = len;
                        e.2 = v;
                    }
                }
            }
        }
        for s in o.samples {
            if self.samples.len() < 4 {
                self.samples.push(s);
            }
        }
        self.machinery.extend(o.machinery);
        self
    }

    fn record(&mut self, kind: DynKind, ops: &[Op], backend: &str, fv: FvPolicy, choices: &[usize], d: Deviation) {
        let witness: Vec<Op> = ops[..=d.step].to_vec();
        let v = Violation {
            property: d.property.to_string(),
            key: d.key.clone(),
            message: format!("history [{}] (backend {} choices {:?}): {}", history_str(&witness), backend, choices, d.message),
            case: json!({
                "engine": "dynamic", "solver": kind.name(), "history": witness.iter().map(|o| o.to_json()).collect::<Vec<_>>(),
                "backend": backend, "free_var_policy": fv.name(), "choices": choices,
            }),
        };
        let k = (d.property.to_string(), d.key);
        match self.violations.get_mut(&k) {
            None => {
                self.violations.insert(k, (1, witness.len(), v));
            }
            Some(e) => {
                e.0 += 1;
                if witness.len() < e.1 {
                    e.1 = witness.len();
                    e.2 = v;
                }
            }
        }
    }
}

pub fn check_history(kind: DynKind, ops: &[Op], backend: &Backend, acc: &mut DynAcc) {
    acc.histories += 1;
    let has_removal = ops.iter().any(|o| matches!(o, Op::RemArg(_) | Op::RemAtt(_, _)));
    let has_query = ops.iter().any(|o| o.is_query());
    if has_removal && has_query {
        acc.with_removal_and_query += 1;
    }
    match backend {
        Backend::Cadical => {
            let obs = run_history(kind, ops, cadical_factory());
            acc.executions += 1;
            if acc.outcomes.len() < 200 {
                if let Some(o) = obs.last() {
                    acc.outcomes.insert(o.describe());
                }
            }
            if let Some(d) = judge_history(kind, ops, &obs) {
                acc.record(kind, ops, "cadical", FvPolicy::False, &[], d);
            }
        }
        Backend::Choice(cfg) => {
            let mut devs: Vec<(Vec<usize>, Deviation)> = vec![];
            let mut n = 0u64;
            let mut sample: Option<Value> = None;
            let mut outs: Vec<String> = vec![];
            let room = acc.outcomes.len() < 200;
            let r = explore(
                cfg,
                &mut |f| run_history(kind, ops, f),
                &mut |e: &Exec<Vec<StepObs>>| {
                    n += 1;
                    match e.result {
                        Ok(obs) => {
                            if room && outs.len() < 8 {
                                if let Some(o) = obs.last() {
                                    outs.push(o.describe());
                                }
                            }
                            if let Some(d) = judge_history(kind, ops, obs) {
                                devs.push((e.choices.clone(), d));
                            }
                            if n == 2 && sample.is_none() {
                                sample = Some(json!({"solver": kind.name(), "history": history_str(ops), "choices": e.choices, "observations": obs.iter().map(|o| o.describe()).collect::<Vec<_>>()}));
                            }
                        }
                        Err(p) => devs.push((
                            e.choices.clone(),
                            Deviation { step: ops.len() - 1, property: "C08", key: format!("solver={};symptom=harness_level_panic", kind.type_name()), message: format!("panic outside a step: {}", p) },
                        )),
                    }
                },
            );
            acc.executions += n;
            acc.outcomes.extend(outs);
            match r {
                Ok(st) => acc.stats.add(&st),
                Err(m) => acc.machinery.push(format!("{} [{}]: {}", kind.name(), history_str(ops), m.0)),
            }
            if let Some(s) = sample {
                if acc.samples.len() < 2 {
                    acc.samples.push(s);
                }
            }
            for (choices, d) in devs {
                acc.record(kind, ops, "choicesat", cfg.fv, &choices, d);
            }
        }
    }
}

pub struct DynPlan {
    pub name: String,
    pub kinds: Vec<DynKind>,
    pub n_labels: u8,
    pub depth: usize,
    pub bad_budget: usize,
    pub max_queries: usize,
    pub prefixes: Vec<Vec<Op>>,
    pub backend: Backend,
    /// only histories containing at least one bad update are executed (C09 on top of C08)
    pub only_with_bad: bool,
    /// continuations consist of queries only
    pub queries_only: bool,
    /// continuations are updates followed by one final query
    pub updates_then_query: bool,
}

pub fn run_plan(plan: &DynPlan) -> DynAcc {
    // tasks: (kind, prefix, first two operations)
    let mut tasks: Vec<(DynKind, Vec<Op>)> = vec![];
    for &kind in &plan.kinds {
        let split = plan.depth.min(2);
        let mut alpha = alphabet(plan, kind);
        alpha.tail = plan.depth - split;
        for p in &plan.prefixes {
            alpha.for_each_history(p, split, plan.bad_budget, &mut |h| tasks.push((kind, h.to_vec())));
        }
    }
    tasks
        .par_iter()
        .with_max_len(1)
        .map(|(kind, start)| {
            let mut acc = DynAcc::default();
            let alpha = alphabet(plan, *kind);
            let rest = plan.depth - plan.depth.min(2);
            alpha.for_each_history(start, rest, plan.bad_budget, &mut |h| {
                if plan.only_with_bad {
                    let mut s = RefState::new();
                    let mut bad = false;
                    for op in h {
                        match s.classify(op) {
                            OpClass::Valid => s.apply(op),
                            _ => bad = true,
                        }
                    }
                    if !bad {
                        return;
                    }
                }
                check_history(*kind, h, &plan.backend, &mut acc)
            });
            acc.history_nodes += alpha.nodes.get();
            acc
        })
        .reduce(DynAcc::default, DynAcc::merge)
}

fn alphabet(plan: &DynPlan, kind: DynKind) -> Alphabet {
    Alphabet {
        n_labels: plan.n_labels,
        kind,
        with_unknown_label: plan.bad_budget > 0,
        nocert_queries: false,
        max_queries: plan.max_queries,
        queries_only: plan.queries_only,
        updates_then_query: plan.updates_then_query,
        tail: 0,
        nodes: std::cell::Cell::new(0),
    }
}

pub fn fill(rep: &mut Report, plan: &DynPlan, acc: DynAcc) {
    rep.states += acc.history_nodes + acc.stats.nodes;
    rep.transitions += acc.history_nodes + acc.stats.edges;
    rep.traces += acc.executions;
    rep.evaluations += acc.executions;
    rep.distinct_nontrivial += acc.with_removal_and_query;
    if acc.stats.alt_capped || acc.stats.exec_capped {
        rep.exhaustive = false;
    }
    rep.extra.insert(
        format!("space:{}", plan.name),
        json!({
            "solver_configurations": plan.kinds.len(), "labels": plan.n_labels, "depth": plan.depth, "bad_update_budget": plan.bad_budget,
            "start_states": plan.prefixes.len(), "histories": acc.histories, "history_tree_nodes": acc.history_nodes,
            "executions": acc.executions, "oracle_choice_points": acc.stats.choice_points, "alternative_cap_hit": acc.stats.alt_capped,
            "execution_cap_hit": acc.stats.exec_capped, "distinct_last_observations": acc.outcomes.len(),
            "backend": match &plan.backend { Backend::Cadical => "cadical".to_string(), Backend::Choice(c) => format!("choicesat D<={:?}", c.dev_bound) },
        }),
    );
    for s in acc.samples {
        rep.add_sample(s);
    }
    for (_, (n, _, v)) in acc.violations {
        rep.n_violations += n - 1;
        rep.add_violation(v);
    }
    rep.machinery_errors.extend(acc.machinery);
}

pub fn start_states(max_n: usize) -> Vec<Vec<Op>> {
    let mut v = vec![];
    for g in crate::universe::universe_upto(max_n) {
        if g.n == 0 {
            continue;
        }
        v.push(construction_history(&g, false));
        v.push(construction_history(&g, true));
    }
    v
}

fn graphs_note(gs: &[Graph]) -> usize {
    gs.len()
}

pub fn run_c08(tier: Tier) -> i32 {
    let mut rep = Report::new("C08", tier);
    let thorough = tier == Tier::Thorough;
    let kinds = all_kinds();
    let choice = |d: usize| Backend::Choice(ExploreCfg { dev_bound: Some(d), fv: FvPolicy::False, cap_alts: 16, max_execs: 400, ..ExploreCfg::default() });
    let mut plans = vec![
        DynPlan { name: "2 labels, from the empty solver, CaDiCaL".into(), kinds: kinds.clone(), n_labels: 2, depth: if thorough { 8 } else { 7 }, bad_budget: 0, max_queries: 3, prefixes: vec![vec![]], backend: Backend::Cadical, only_with_bad: false, queries_only: false, updates_then_query: false },
        DynPlan { name: "3 labels, from the empty solver, CaDiCaL".into(), kinds: kinds.clone(), n_labels: 3, depth: if thorough { 7 } else { 6 }, bad_budget: 0, max_queries: 3, prefixes: vec![vec![]], backend: Backend::Cadical, only_with_bad: false, queries_only: false, updates_then_query: false },
        DynPlan { name: "2 labels, from the empty solver, oracle choices".into(), kinds: kinds.clone(), n_labels: 2, depth: if thorough { 8 } else { 6 }, bad_budget: 0, max_queries: 3, prefixes: vec![vec![]], backend: choice(if thorough { 2 } else { 1 }), only_with_bad: false, queries_only: false, updates_then_query: false },
        DynPlan { name: "3 labels, from the empty solver, oracle choices".into(), kinds: kinds.clone(), n_labels: 3, depth: if thorough { 6 } else { 5 }, bad_budget: 0, max_queries: 2, prefixes: vec![vec![]], backend: choice(1), only_with_bad: false, queries_only: false, updates_then_query: false },
        DynPlan { name: "non-initial starts: every framework with <=3 arguments, compact and sparse-id construction, then all continuations, oracle choices".into(), kinds: kinds.clone(), n_labels: 3, depth: if thorough { 3 } else { 2 }, bad_budget: 0, max_queries: 3, prefixes: start_states(3), backend: choice(2), only_with_bad: false, queries_only: false, updates_then_query: false },
    ];
    // 4 labels: from every isomorphism class of 4-argument frameworks (compact and sparse-id
    // construction), every sequence of queries (cached answers across queries without updates)
    {
        let mut starts = vec![];
        for g in crate::universe::iso_representatives(4) {
            starts.push(construction_history(&g, false));
        }
        if thorough {
            plans.push(DynPlan { name: "4 labels: one framework per isomorphism class of U(4), then every sequence of 3 queries, CaDiCaL".into(), kinds: kinds.clone(), n_labels: 4, depth: if thorough { 3 } else { 2 }, bad_budget: 0, max_queries: 3, prefixes: starts.clone(), backend: Backend::Cadical, only_with_bad: false, queries_only: true, updates_then_query: false });
        }
        plans.push(DynPlan { name: "4 labels: one framework per isomorphism class of U(4), then every sequence of 2 queries, oracle choices".into(), kinds: kinds.clone(), n_labels: 4, depth: 2, bad_budget: 0, max_queries: 3, prefixes: starts, backend: choice(1), only_with_bad: false, queries_only: true, updates_then_query: false });
    }
    // 5 labels: one framework per isomorphism class of the sparse 5-argument digraphs, then every sequence of 2 queries
    {
        let starts: Vec<Vec<Op>> = crate::universe::iso_representatives_sparse(5, if thorough { 6 } else { 5 }).into_iter().filter(|g| g.n == 5).map(|g| construction_history(&g, false)).collect();
        plans.push(DynPlan { name: "5 labels: one framework per isomorphism class of 5-argument digraphs with <= 5 [6] attacks, then every sequence of 2 queries, CaDiCaL".into(), kinds: kinds.clone(), n_labels: 5, depth: 2, bad_budget: 0, max_queries: 3, prefixes: starts, backend: Backend::Cadical, only_with_bad: false, queries_only: true, updates_then_query: false });
    }
    // 6 labels: one framework per isomorphism class of the sparse 6-argument digraphs, then every sequence of 2 queries
    // (the preferred solver, whose only queries are skeptical, on all classes with <= 8 attacks)
    {
        let all6 = crate::universe::iso_classes_augment(6, 8);
        let starts_pr: Vec<Vec<Op>> = all6.iter().filter(|g| g.att.len() >= 3).map(|g| construction_history(g, false)).collect();
        plans.push(DynPlan { name: format!("6 labels: one framework per isomorphism class of 6-argument digraphs with 3..8 attacks ({} classes), then every sequence of 2 queries, preferred solver, CaDiCaL", starts_pr.len()), kinds: vec![DynKind::Preferred], n_labels: 6, depth: 2, bad_budget: 0, max_queries: 3, prefixes: starts_pr, backend: Backend::Cadical, only_with_bad: false, queries_only: true, updates_then_query: false });
        let k = if thorough { 6 } else { 5 };
        let starts: Vec<Vec<Op>> = all6.iter().filter(|g| g.att.len() >= 3 && g.att.len() <= k).map(|g| construction_history(g, false)).collect();
        plans.push(DynPlan { name: format!("6 labels: the classes with 3..{} attacks ({}), then every sequence of 2 queries, stable and recompute solvers, CaDiCaL", k, starts.len()), kinds: vec![DynKind::Stable, DynKind::DummyCoPr], n_labels: 6, depth: 2, bad_budget: 0, max_queries: 3, prefixes: starts, backend: Backend::Cadical, only_with_bad: false, queries_only: true, updates_then_query: false });
    }
    let _ = graphs_note(&[]);
    // scripted long histories (4 labels, up to ~150 updates with every supported query after each)
    {
        let t = std::time::Instant::now();
        let cells: Vec<(DynKind, usize)> = kinds.iter().flat_map(|&k| (0..crate::dynamic::long_scripts(k).len()).map(move |i| (k, i))).collect();
        let acc = cells
            .par_iter()
            .with_max_len(1)
            .map(|&(k, i)| {
                let mut acc = DynAcc::default();
                let (_, ops) = &crate::dynamic::long_scripts(k)[i];
                check_history(k, ops, &Backend::Cadical, &mut acc);
                acc.history_nodes += ops.len() as u64;
                acc
            })
            .reduce(DynAcc::default, DynAcc::merge);
        let p = DynPlan { name: "scripted long histories over 4 labels (toggle_all, churn, grow_shrink, flip: 60-150 updates, every supported query after every update), CaDiCaL".into(), kinds: kinds.clone(), n_labels: 4, depth: 0, bad_budget: 0, max_queries: 0, prefixes: vec![vec![]], backend: Backend::Cadical, only_with_bad: false, queries_only: false, updates_then_query: false };
        eprintln!("  plan '{}': {} histories, {} executions, {:.1}s", p.name, acc.histories, acc.executions, t.elapsed().as_secs_f64());
        fill(&mut rep, &p, acc);
    }
    for p in &plans {
        let t = std::time::Instant::now();
        let acc = run_plan(p);
        eprintln!("  plan '{}': {} histories, {} executions, {:.1}s", p.name, acc.histories, acc.executions, t.elapsed().as_secs_f64());
        if acc.histories == 0 {
            rep.machinery_errors.push(format!("plan '{}' enumerated no history (vacuous)", p.name));
        }
        fill(&mut rep, p, acc);
    }
    rep.rule = "cases = histories of valid update operations and supported queries (with certificate; both variants for the recompute wrapper) over 2 or 3 labels, each executed from scratch on the real solver object, every step compared with the reference store and the reference semantics of the framework at that moment; with the oracle backend every history is run under every model choice up to the deviation bound; distinct_nontrivial = histories containing at least one removal and at least one query".into();
    rep.bounds = json!({"max_queries_per_history": 3, "reservation_factors": FACTORS, "oracle_alternatives_cap": 16});
    rep.assumptions = vec![
        "reference semantics and set-based reference store are the oracle".into(),
        "certificate members are identified by label and by the id ledger (ids = insertion rank) since the solver's framework is private".into(),
    ];
    rep.finish()
}

pub fn run_c09(tier: Tier) -> i32 {
    let mut rep = Report::new("C09", tier);
    let thorough = tier == Tier::Thorough;
    let kinds = all_kinds();
    let choice = |d: usize| Backend::Choice(ExploreCfg { dev_bound: Some(d), fv: FvPolicy::False, cap_alts: 16, max_execs: 400, ..ExploreCfg::default() });
    let mut plans = vec![
        DynPlan { name: "2 labels + one never-declared label, <=2 bad updates, CaDiCaL".into(), kinds: kinds.clone(), n_labels: 2, depth: if thorough { 6 } else { 5 }, bad_budget: 2, max_queries: 2, prefixes: vec![vec![]], backend: Backend::Cadical, only_with_bad: true, queries_only: false, updates_then_query: false },
        DynPlan { name: "2 labels + one never-declared label, <=1 bad update, oracle choices".into(), kinds: kinds.clone(), n_labels: 2, depth: if thorough { 6 } else { 5 }, bad_budget: 1, max_queries: 2, prefixes: vec![vec![]], backend: choice(1), only_with_bad: true, queries_only: false, updates_then_query: false },
        DynPlan { name: "non-initial starts (<=2 arguments, compact and sparse), then <=1 bad update within 3 operations".into(), kinds: kinds.clone(), n_labels: 2, depth: 3, bad_budget: 1, max_queries: 2, prefixes: start_states(2), backend: Backend::Cadical, only_with_bad: true, queries_only: false, updates_then_query: false },
    ];
    // stale-slot class: an update that removes something, then a redundant update, then more updates, one query
    plans.push(DynPlan { name: "2 labels: from every start state (<=2 arguments, compact and sparse), 4 updates (exactly 1 bad) then one query, CaDiCaL".into(), kinds: vec![DynKind::Complete, DynKind::Stable, DynKind::Preferred, DynKind::CompleteAtt(1), DynKind::StableAtt(1), DynKind::DummyCoPr, DynKind::DummySt], n_labels: 2, depth: 5, bad_budget: 1, max_queries: 1, prefixes: start_states(2), backend: Backend::Cadical, only_with_bad: true, queries_only: false, updates_then_query: true });
    if thorough {
        // 3 labels from sparse 3-argument frameworks: three updates (exactly one redundant / invalid) and a final query
        let starts: Vec<Vec<Op>> = crate::universe::universe_upto(3).into_iter().filter(|g| g.n >= 2 && g.att.len() <= 2).map(|g| construction_history(&g, false)).collect();
        plans.push(DynPlan { name: "3 labels: from every framework with 2-3 arguments and <= 2 attacks, 3 updates (1 bad) then one query, CaDiCaL".into(), kinds: vec![DynKind::Complete, DynKind::Stable, DynKind::Preferred, DynKind::CompleteAtt(1), DynKind::StableAtt(1), DynKind::DummyCoPr, DynKind::DummySt], n_labels: 3, depth: 4, bad_budget: 1, max_queries: 1, prefixes: starts, backend: Backend::Cadical, only_with_bad: true, queries_only: false, updates_then_query: true });
    }
    plans.push(DynPlan { name: "2 labels + one never-declared label, exactly 1 bad update, CaDiCaL, deeper".into(), kinds: kinds.clone(), n_labels: 2, depth: if thorough { 8 } else { 6 }, bad_budget: 1, max_queries: 2, prefixes: vec![vec![]], backend: Backend::Cadical, only_with_bad: true, queries_only: false, updates_then_query: false });
    for p in &plans {
        let t = std::time::Instant::now();
        let acc = run_plan(p);
        eprintln!("  plan '{}': {} histories, {} executions, {:.1}s", p.name, acc.histories, acc.executions, t.elapsed().as_secs_f64());
        if acc.histories == 0 {
            rep.machinery_errors.push(format!("plan '{}' enumerated no history (vacuous)", p.name));
        }
        fill(&mut rep, p, acc);
    }
    rep.rule = "cases = the C08 histories in which up to 2 updates are redundant (existing argument / attack) or invalid (unknown argument, absent attack, unknown end point), at every position; redundant updates must return normally and change nothing, invalid ones must return Err from the update call itself, and all later steps must behave as in the history without that operation; a history is cut at its first deviation; distinct_nontrivial = histories with a removal and a query".into();
    rep.bounds = json!({"bad_updates_per_history": 2});
    rep.assumptions = vec!["same as C08".into()];
    rep.finish()
}
