//! C01 - C04 (and the shared plan pieces): answers of the static solvers under every oracle behaviour.

use crate::choicesat::{ExploreCfg, FvPolicy};
use crate::refmodel::Graph;
use crate::report::{Report, Tier};
use crate::staticq::{Aspect, QKind, Query};
use crate::sweep::{all_sems, named, Acc, ArgLists, SweepPlan};
use crate::universe::{family_s, universe_upto, Presentation, ALL_PRESENTATIONS};
use serde_json::json;

pub fn full_tree(fv: FvPolicy) -> ExploreCfg {
    ExploreCfg { dev_bound: None, fv, ..ExploreCfg::default() }
}

pub fn bounded(d: usize, fv: FvPolicy) -> ExploreCfg {
    ExploreCfg { dev_bound: Some(d), fv, ..ExploreCfg::default() }
}

pub fn small_universe(n: usize) -> Vec<(String, Graph)> {
    named(universe_upto(n), "U")
}

pub fn exact_universe(n: usize) -> Vec<(String, Graph)> {
    named(crate::universe::all_graphs(n).collect(), "U")
}

pub fn fill_report(rep: &mut Report, acc: Acc, space: &str) {
    rep.states += acc.stats.nodes;
    rep.transitions += acc.stats.edges;
    rep.traces += acc.stats.execs + acc.cadical_runs;
    rep.evaluations += acc.evaluations;
    rep.distinct_nontrivial += acc.nontrivial.len() as u64;
    if acc.stats.alt_capped || acc.stats.exec_capped {
        rep.exhaustive = false;
    }
    let e = rep.extra.entry(format!("space:{}", space)).or_insert(json!({}));
    *e = json!({
        "graphs": acc.graphs, "framework_objects": acc.built, "queries": acc.queries,
        "executions_choicesat": acc.stats.execs, "executions_cadical": acc.cadical_runs,
        "choice_points": acc.stats.choice_points, "max_alternatives_at_a_point": acc.stats.max_alts,
        "max_sat_calls_in_an_execution": acc.stats.max_calls,
        "alternative_cap_hit": acc.stats.alt_capped, "execution_cap_hit": acc.stats.exec_capped,
        "distinct_outcomes": acc.outcomes.len(), "wall_s": (acc.wall_s * 10.0).round() / 10.0,
    });
    eprintln!("  space '{}': {:.1}s", space, acc.wall_s);
    for s in acc.samples {
        rep.add_sample(s);
    }
    for (_, (n, v)) in acc.violations {
        rep.n_violations += n - 1;
        rep.add_violation(v);
    }
    rep.machinery_errors.extend(acc.machinery);
}

fn prop_c01(_q: &Query, a: Aspect) -> Option<&'static str> {
    (a == Aspect::Extension).then_some("C01")
}
fn prop_c02(q: &Query, a: Aspect) -> Option<&'static str> {
    (a == Aspect::Status && q.kind == QKind::DC).then_some("C02")
}
fn prop_c03(q: &Query, a: Aspect) -> Option<&'static str> {
    (a == Aspect::Status && q.kind == QKind::DS).then_some("C03")
}
fn prop_c04(_q: &Query, a: Aspect) -> Option<&'static str> {
    (a == Aspect::Certificate).then_some("C04")
}

pub fn s_family() -> Vec<(String, Graph)> {
    family_s().into_iter().map(|(n, g)| (format!("S:{}", n), g)).collect()
}

pub fn run(prop: &str, tier: Tier) -> i32 {
    let mut rep = Report::new(prop, tier);
    let (kinds, certs, prop_of): (Vec<QKind>, Vec<bool>, crate::sweep::PropOf) = match prop {
        "C01" => (vec![QKind::SE], vec![false], prop_c01),
        "C02" => (vec![QKind::DC], vec![false, true], prop_c02),
        "C03" => (vec![QKind::DS], vec![false, true], prop_c03),
        "C04" => (vec![QKind::DC, QKind::DS], vec![true], prop_c04),
        _ => unreachable!(),
    };
    let thorough = tier == Tier::Thorough;
    let fvs: Vec<FvPolicy> = if thorough {
        vec![FvPolicy::False, FvPolicy::True, FvPolicy::TrailingNone]
    } else {
        vec![FvPolicy::False, FvPolicy::TrailingNone]
    };
    let pres_small: Vec<Presentation> = ALL_PRESENTATIONS.to_vec();
    // (1) U(<=3): complete choice tree
    let plan = SweepPlan {
        graphs: small_universe(3),
        presentations: pres_small.clone(),
        kinds: kinds.clone(),
        sems: all_sems(),
        certs: certs.clone(),
        lists: ArgLists::Single,
        with_lib_default: thorough,
        cfgs: fvs.iter().map(|&fv| full_tree(fv)).collect(),
        with_cadical: true,
        prop_of,
    };
    fill_report(&mut rep, plan.run(), "U(<=3) x all presentations, complete choice tree");
    // (2) S: deviation-bounded (two deviations only on the members with <= 9 arguments)
    let plan = SweepPlan {
        graphs: s_family(),
        presentations: if thorough { vec![Presentation::Compact, Presentation::Hole, Presentation::Apx] } else { vec![Presentation::Compact, Presentation::Hole] },
        kinds: kinds.clone(),
        sems: all_sems(),
        certs: certs.clone(),
        lists: ArgLists::Single,
        with_lib_default: false,
        cfgs: vec![bounded(1, FvPolicy::False)],
        with_cadical: true,
        prop_of,
    };
    fill_report(&mut rep, plan.run(), "S structured family, D<=1");
    // (2') dense extremes (complete digraphs on 11 / 16 arguments): capacity / overflow boundaries of the
    // encoders' size tests; one oracle behaviour (CaDiCaL) - the oracle tree of a 16-clique is too wide
    {
        let plan = SweepPlan {
            graphs: crate::universe::dense_extremes().into_iter().map(|(n, g)| (format!("dense:{}", n), g)).collect(),
            presentations: vec![Presentation::Compact],
            kinds: kinds.clone(),
            sems: all_sems(),
            certs: certs.clone(),
            lists: ArgLists::Single,
            with_lib_default: true,
            cfgs: vec![],
            with_cadical: true,
            prop_of,
        };
        fill_report(&mut rep, plan.run(), "3 dense extremes (K16 with / without loops, K11 with loops), CaDiCaL; the exponential encoder is not asked where it needs > 10^6 clauses");
    }
    if thorough {
        let plan = SweepPlan {
            graphs: s_family().into_iter().filter(|(_, g)| g.n <= 9).collect(),
            presentations: vec![Presentation::Compact],
            kinds: kinds.clone(),
            sems: all_sems(),
            certs: certs.clone(),
            lists: ArgLists::Single,
            with_lib_default: false,
            cfgs: vec![ExploreCfg { cap_alts: 16, ..bounded(2, FvPolicy::False) }],
            with_cadical: false,
            prop_of,
        };
        fill_report(&mut rep, plan.run(), "S members with <= 9 arguments, D<=2 (16 alternatives per call)");
    }
    // (2b) sparse 5-argument frameworks (one per isomorphism class), deviation-bounded
    {
        let k = if thorough { 7 } else { 6 };
        let plan = SweepPlan {
            graphs: named(crate::universe::iso_representatives_sparse(5, k), "U5iso"),
            presentations: vec![Presentation::Compact],
            kinds: kinds.clone(),
            sems: all_sems(),
            certs: certs.clone(),
            lists: ArgLists::Single,
            with_lib_default: false,
            cfgs: vec![bounded(if thorough { 2 } else { 1 }, FvPolicy::False)],
            with_cadical: true,
            prop_of,
        };
        fill_report(&mut rep, plan.run(), &format!("one representative per isomorphism class of 5-argument frameworks with <= {} attacks, D<={}", k, if thorough { 2 } else { 1 }));
    }
    // (2b') sparse 6-argument frameworks (one per isomorphism class): CaDiCaL, thorough also D <= 1
    {
        let k = if thorough { 8 } else { 7 };
        let classes = crate::universe::iso_classes_augment(6, k);
        if crate::universe::iso_classes_augment(4, 16).len() != 3044 {
            rep.machinery_errors.push("iso_classes_augment(4, 16) does not give the 3044 classes of U(4)".into());
        }
        let n_classes = classes.len();
        let mut graphs6 = named(classes, "U6iso");
        if !thorough {
            // quick: the classes with exactly 8 attacks as well, with the library's default encoder only
            let eight: Vec<crate::refmodel::Graph> = crate::universe::iso_classes_augment(6, 8).into_iter().filter(|g| g.att.len() == 8).collect();
            graphs6.extend(eight.into_iter().map(|g| (format!("{}U6iso8:{}", crate::sweep::LIB_DEFAULT_ONLY, g.code()), g)));
        }
        let plan = SweepPlan {
            graphs: graphs6,
            presentations: vec![Presentation::Compact],
            kinds: kinds.clone(),
            sems: all_sems(),
            certs: certs.clone(),
            lists: ArgLists::Single,
            with_lib_default: false,
            cfgs: if thorough { vec![bounded(1, FvPolicy::False)] } else { vec![] },
            with_cadical: true,
            prop_of,
        };
        fill_report(&mut rep, plan.run(), &format!("one representative per isomorphism class of 6-argument frameworks with <= {} attacks ({}), CaDiCaL{}", k, n_classes, if thorough { " and D<=1" } else { "; the 46 528 classes with exactly 8 attacks with the library's default encoder" }));
    }
    // (2b'') composition family: irregular frameworks of up to 9 arguments glued from small pieces
    {
        let fam = crate::universe::composition_family(if thorough { 1 } else { 0 });
        let n_fam = fam.len();
        let plan = SweepPlan {
            graphs: fam.into_iter().map(|(n, g)| (format!("comp:{}", n), g)).collect(),
            presentations: vec![Presentation::Compact],
            kinds: kinds.clone(),
            sems: all_sems(),
            certs: certs.clone(),
            lists: ArgLists::Single,
            with_lib_default: false,
            cfgs: vec![],
            with_cadical: true,
            prop_of,
        };
        fill_report(&mut rep, plan.run(), &format!("composition family: {} frameworks of <= 9 arguments glued from the connected classes of U(<=3) (pairs{} and triples over a 12-piece menu), CaDiCaL", n_fam, if thorough { " with every bridging attack" } else { " with first-to-first bridging" }));
    }
    // (2c) quick: one framework per isomorphism class of U(4), D <= 1, and CaDiCaL
    if !thorough {
        let plan = SweepPlan {
            graphs: named(crate::universe::iso_representatives(4), "U4iso"),
            presentations: vec![Presentation::Compact],
            kinds: kinds.clone(),
            sems: all_sems(),
            certs: certs.clone(),
            lists: ArgLists::Single,
            with_lib_default: false,
            cfgs: vec![bounded(1, FvPolicy::False)],
            with_cadical: true,
            prop_of,
        };
        fill_report(&mut rep, plan.run(), "one representative per isomorphism class of 4-argument frameworks (3044), D<=1, and CaDiCaL");
    }
    // (3) thorough: U(4) with D <= 1
    if thorough {
        let plan = SweepPlan {
            graphs: exact_universe(4),
            presentations: vec![Presentation::Compact, Presentation::Hole],
            kinds: kinds.clone(),
            sems: all_sems(),
            certs: certs.clone(),
            lists: ArgLists::Single,
            with_lib_default: false,
            cfgs: vec![bounded(1, FvPolicy::False)],
            with_cadical: true,
            prop_of,
        };
        fill_report(&mut rep, plan.run(), "U(4), D<=1");
        // every isomorphism class of U(4): the COMPLETE oracle tree
        let plan = SweepPlan {
            graphs: named(crate::universe::iso_representatives(4), "U4iso"),
            presentations: vec![Presentation::Compact],
            kinds: kinds.clone(),
            sems: all_sems(),
            certs: certs.clone(),
            lists: ArgLists::Single,
            with_lib_default: false,
            cfgs: vec![full_tree(FvPolicy::False)],
            with_cadical: false,
            prop_of,
        };
        fill_report(&mut rep, plan.run(), "one representative per isomorphism class of U(4) (3044), complete choice tree");
    }
    rep.rule = "cases = (graph, presentation, problem, encoder, argument, certificate flag) x every sequence of models the SAT oracle may return (ChoiceSat choice tree; complete for U(<=3), deviation-bounded elsewhere) plus one run with CaDiCaL; distinct_nontrivial = number of distinct (graph, semantics) pairs whose reference family has >= 2 extensions".into();
    rep.bounds = json!({
        "universe": if thorough { "U(<=3) complete tree; S with D<=1 (D<=2 on members with <= 9 arguments); sparse 5-argument classes D<=2; U(4) with D<=1; all isomorphism classes of U(4) with the complete tree" } else { "U(<=3) complete tree; S with D<=1; sparse 5-argument classes D<=1; all 3044 isomorphism classes of U(4) with D<=1" },
        "free_variable_policies": fvs.iter().map(|f| f.name()).collect::<Vec<_>>(),
        "cap_alternatives_per_call": 64, "cap_executions_per_query": 20000,
    });
    rep.assumptions = vec![
        "reference semantics (subset enumeration on bit masks) is the oracle; cross-checked formulations at start-up".into(),
        "ChoiceSat returns only total models of the clauses+assumptions it was given; its DPLL is self-checked against truth tables at start-up".into(),
        "Assignment values are fabricated through a throw-away CadicalSolver with unit clauses (value constructor only) and read back".into(),
    ];
    rep.finish()
}

fn prop_c07(_q: &Query, a: Aspect) -> Option<&'static str> {
    (a == Aspect::Status || a == Aspect::Certificate).then_some("C07")
}

/// C07: multi-argument queries are disjunctions; both variants give the same status.
pub fn run_c07(tier: Tier) -> i32 {
    let mut rep = Report::new("C07", tier);
    let thorough = tier == Tier::Thorough;
    let mut graphs = small_universe(3);
    graphs.extend(named(crate::universe::two_component_unions(2, 2), "U2+U2"));
    if !thorough {
        // quick: lists of length 3 only on graphs with <= 2 arguments, length <= 2 everywhere
        let plan = SweepPlan {
            graphs: small_universe(2),
            presentations: vec![Presentation::Compact, Presentation::Hole],
            kinds: vec![QKind::DC, QKind::DS],
            sems: all_sems(),
            certs: vec![false, true],
            lists: ArgLists::Lists(3),
            with_lib_default: false,
            cfgs: vec![full_tree(FvPolicy::False)],
            with_cadical: true,
            prop_of: prop_c07,
        };
        fill_report(&mut rep, plan.run(), "U(<=2), all argument lists of length 1..3, complete tree");
    }
    let plan = SweepPlan {
        graphs,
        presentations: if thorough { ALL_PRESENTATIONS.to_vec() } else { vec![Presentation::Compact, Presentation::Hole] },
        kinds: vec![QKind::DC, QKind::DS],
        sems: all_sems(),
        certs: vec![false, true],
        lists: if thorough { ArgLists::Lists(3) } else { ArgLists::Lists(2) },
        with_lib_default: false,
        cfgs: vec![if thorough { full_tree(FvPolicy::False) } else { bounded(1, FvPolicy::False) }],
        with_cadical: true,
        prop_of: prop_c07,
    };
    fill_report(&mut rep, plan.run(), "U(<=3) and U(<=2)+U(<=2), all argument lists (length 1..2 quick, 1..3 thorough)");
    // every isomorphism class of U(4) and the sparse 5-argument classes: every list of length <= 2
    {
        let mut graphs = named(crate::universe::iso_representatives(4), "U4iso");
        graphs.extend(named(crate::universe::iso_representatives_sparse(5, if thorough { 6 } else { 5 }), "U5iso"));
        let plan = SweepPlan {
            graphs,
            presentations: vec![Presentation::Compact],
            kinds: vec![QKind::DC, QKind::DS],
            sems: all_sems(),
            certs: vec![false, true],
            lists: ArgLists::Lists(2),
            with_lib_default: false,
            cfgs: if thorough { vec![bounded(1, FvPolicy::False)] } else { vec![] },
            with_cadical: true,
            prop_of: prop_c07,
        };
        fill_report(&mut rep, plan.run(), &format!("all 3044 isomorphism classes of U(4) and the sparse 5-argument classes, all argument lists of length 1..2, CaDiCaL{}", if thorough { " and D<=1" } else { "" }));
    }
    if thorough {
        // lists of length <= 2 on members of S with several components
        let plan = SweepPlan {
            graphs: s_family().into_iter().filter(|(_, g)| g.n <= 8).collect(),
            presentations: vec![Presentation::Compact],
            kinds: vec![QKind::DC, QKind::DS],
            sems: all_sems(),
            certs: vec![false, true],
            lists: ArgLists::Lists(2),
            with_lib_default: false,
            cfgs: vec![bounded(1, FvPolicy::False)],
            with_cadical: true,
            prop_of: prop_c07,
        };
        fill_report(&mut rep, plan.run(), "S (n<=8), lists of length 1..2");
    }
    rep.rule = "cases = (graph, presentation, DC/DS problem, encoder, argument list of length 1..3 with repetitions in every order, certificate flag) x oracle behaviours; status judged as disjunction over reference extensions, so the two variants are compared with the same expected value; distinct_nontrivial = distinct (graph, semantics) pairs with >= 2 extensions".into();
    rep.bounds = json!({"lists": if thorough { "length 1..3" } else { "length 1..2 (1..3 on U(<=2))" }, "deviation_bound": if thorough { "complete tree" } else { "D<=1" }});
    rep.assumptions = vec!["same trusted base as C01".into()];
    rep.finish()
}
