//! C17, external-backend part: every failure kind of the stand-in external solver at every call
//! position, (a) in-process through ExternalSatSolver on the library API, (b) through the
//! `crustabri solve --external-sat-solver` command line.
use crate::checks::c05::{has_answer_line, run as run_process_once, Invocation, bin_solve};
use crate::checks::c15::fake_sat;
use crate::checks::c16::{external_factory, scratch_dir};
use crate::choicesat::catch;
use crate::refmodel::Graph;
use crate::report::{Report, Tier, Violation};
use crate::staticq::{run_query, QKind};
use crate::sweep::{queries_for, with_presentation, ArgLists, BuiltVisitor};
use crate::universe::{Built, Presentation};
use crustabri::utils::LabelType;
use rayon::prelude::*;
use serde_json::json;
use std::collections::BTreeMap;

pub const MODES: [&str; 12] = ["exit-silent", "status-only", "truncate-zero", "truncate-token", "truncate-mid", "garbage-line", "two-status", "var-out-of-range", "crash", "unknown-status", "c-garbage", "bare-v"];

#[derive(Default)]
struct Acc {
    runs: u64,
    triggered: u64,
    aborted: u64,
    violations: BTreeMap<String, (u64, Violation)>,
    modes_triggered: BTreeMap<String, u64>,
    sample: Option<serde_json::Value>,
}

impl Acc {
    fn merge(mut self, o: Acc) -> Acc {
        self.runs += o.runs;
        self.triggered += o.triggered;
        self.aborted += o.aborted;
        for (k, (n, v)) in o.violations {
            let e = self.violations.entry(k).or_insert((0, v));
            e.0 += n;
        }
        for (k, v) in o.modes_triggered {
            *self.modes_triggered.entry(k).or_insert(0) += v;
        }
        if self.sample.is_none() {
            self.sample = o.sample;
        }
        self
    }
}

struct LibSweep<'a> {
    g: &'a Graph,
    idx: usize,
    max_k: usize,
    acc: &'a mut Acc,
}

impl<'a> BuiltVisitor for LibSweep<'a> {
    fn visit<T: LabelType>(&mut self, b: &Built<T>) {
        let dir = scratch_dir("c17lib");
        let cnt = dir.join(format!("cnt_{}.txt", self.idx));
        let mark = dir.join(format!("mark_{}.txt", self.idx));
        let queries = queries_for(self.g.n, &[QKind::SE, QKind::DC, QKind::DS], &crate::refmodel::ALL_SEMS, &[true], &ArgLists::Single, false);
        for (qi, q) in queries.iter().enumerate() {
            if q.sem == crate::refmodel::Sem::GR || (q.sem == crate::refmodel::Sem::CO && q.kind != QKind::DC) {
                continue;
            }
            for (mi, mode) in MODES.iter().enumerate() {
                // rotate the modes over queries on larger graphs, all modes on the smallest ones
                if self.g.n >= 2 && (qi + mi) % 3 != 0 {
                    continue;
                }
                for k in 1..=self.max_k {
                    let _ = std::fs::remove_file(&cnt);
                    let _ = std::fs::remove_file(&mark);
                    let opts = vec![format!("cnt={}", cnt.display()), format!("mark={}", mark.display()), format!("fail={}@{}", mode, k)];
                    let r = catch(|| run_query(b, q, external_factory(opts)));
                    self.acc.runs += 1;
                    let calls: usize = std::fs::read_to_string(&cnt).ok().and_then(|s| s.trim().parse().ok()).unwrap_or(0);
                    if calls < k {
                        break; // this query makes fewer than k SAT calls
                    }
                    if !mark.exists() {
                        continue; // the k-th call was UNSAT: a model-corrupting failure kind did not fire
                    }
                    self.acc.triggered += 1;
                    *self.acc.modes_triggered.entry(mode.to_string()).or_insert(0) += 1;
                    match r {
                        Err(_) => self.acc.aborted += 1,
                        Ok(out) => {
                            let key = format!("level=external_backend;mode={};symptom=answer_after_backend_failure", mode);
                            let v = Violation {
                                property: "C17".into(),
                                key: key.clone(),
                                message: format!("{} {:?} enc={} on {}: the external solver failed ({}) at SAT call {} but the query returned: {}", q.problem(), q.args, q.enc.name(), self.g.describe(), mode, k, out.describe()),
                                case: json!({"engine": "external_fault", "graph": self.g.to_json(), "query": q.to_json(), "mode": mode, "call": k}),
                            };
                            let e = self.acc.violations.entry(key).or_insert((0, v));
                            e.0 += 1;
                        }
                    }
                    if self.acc.sample.is_none() && k == 2 {
                        self.acc.sample = Some(json!({"graph": self.g.describe(), "query": q.to_json(), "backend_failure": mode, "at_call": k}));
                    }
                }
            }
        }
    }
}

pub fn run_process(rep: &mut Report, tier: Tier) {
    let thorough = tier == Tier::Thorough;
    if !std::path::Path::new(fake_sat()).exists() {
        rep.machinery_errors.push("fake_sat not built".into());
        return;
    }
    // (a) library level through ExternalSatSolver
    let mut graphs: Vec<Graph> = crate::universe::universe_upto(2);
    let iso3 = crate::universe::iso_representatives(3);
    graphs.extend(iso3.into_iter().enumerate().filter(|(i, _)| thorough || i % 8 == 3).map(|(_, g)| g));
    let acc = graphs
        .par_iter()
        .enumerate()
        .with_max_len(1)
        .map(|(i, g)| {
            let mut acc = Acc::default();
            let mut sw = LibSweep { g, idx: i, max_k: if thorough { 5 } else { 3 }, acc: &mut acc };
            with_presentation(g, Presentation::Compact, &mut sw);
            acc
        })
        .reduce(Acc::default, Acc::merge);
    rep.traces += acc.triggered;
    rep.evaluations += acc.triggered;
    rep.states += acc.triggered;
    rep.transitions += acc.runs;
    rep.distinct_nontrivial += acc.modes_triggered.len() as u64;
    rep.extra.insert(
        "space:external backend failing in 12 ways at SAT call k (library level, ExternalSatSolver + stand-in program)".into(),
        json!({"graphs": graphs.len(), "runs": acc.runs, "runs_in_which_the_failure_was_reached": acc.triggered, "aborted": acc.aborted, "failures_reached_per_mode": acc.modes_triggered}),
    );
    if let Some(s) = acc.sample {
        rep.add_sample(s);
    }
    for (_, (n, v)) in acc.violations {
        rep.n_violations += n - 1;
        rep.add_violation(v);
    }
    // (b) command line
    if !std::path::Path::new(bin_solve()).exists() {
        rep.machinery_errors.push("repository binaries not built".into());
        return;
    }
    let dir = scratch_dir("c17cli");
    let cli_graphs = vec![Graph::new(2, &[(0, 1), (1, 0)]), Graph::new(3, &[(0, 1), (1, 2), (2, 0)]), Graph::new(3, &[(0, 1), (1, 0), (1, 2), (2, 2)])];
    let mut tasks: Vec<(usize, String, Option<usize>, &str, usize)> = vec![];
    for (gi, g) in cli_graphs.iter().enumerate() {
        std::fs::write(dir.join(format!("g{}.af", gi)), crate::universe::iccma_text(g)).unwrap();
        let mut pi = 0;
        for kind in ["SE", "DC", "DS"] {
            for sem in ["CO", "PR", "ST", "SST", "STG", "ID"] {
                if sem == "CO" && kind != "DC" {
                    continue;
                }
                pi += 1;
                for (mi, mode) in MODES.iter().enumerate() {
                    if !thorough && (gi + pi + mi) % 4 != 0 {
                        continue;
                    }
                    for k in 1..=(if thorough { 3 } else { 2 }) {
                        tasks.push((gi, format!("{}-{}", kind, sem), if kind == "SE" { None } else { Some(1) }, mode, k));
                    }
                }
            }
        }
    }
    let cacc = tasks
        .par_iter()
        .enumerate()
        .map(|(ti, (gi, problem, arg, mode, k))| {
            let mut acc = Acc::default();
            let cnt = dir.join(format!("cnt_{}.txt", ti));
            let mark = dir.join(format!("mark_{}.txt", ti));
            let _ = std::fs::remove_file(&cnt);
            let _ = std::fs::remove_file(&mark);
            let mut a = vec!["solve".to_string(), "-f".into(), dir.join(format!("g{}.af", gi)).display().to_string(), "-p".into(), problem.clone(), "--logging-level".into(), "off".into(), "-c".into(),
                "--external-sat-solver".into(), fake_sat().into(), "--external-sat-solver-opt".into(), format!("cnt={}", cnt.display()), format!("mark={}", mark.display()), format!("fail={}@{}", mode, k)];
            if let Some(x) = arg {
                a.insert(5, "-a".into());
                a.insert(6, x.to_string());
            }
            let inv = Invocation { bin: bin_solve(), args: a };
            let r = run_process_once(&inv);
            acc.runs += 1;
            let calls: usize = std::fs::read_to_string(&cnt).ok().and_then(|s| s.trim().parse().ok()).unwrap_or(0);
            if calls >= *k && mark.exists() {
                acc.triggered += 1;
                *acc.modes_triggered.entry(mode.to_string()).or_insert(0) += 1;
                let answer = has_answer_line(&r.stdout);
                if r.code == Some(0) || answer.is_some() {
                    let key = format!("level=command_line;mode={};symptom={}", mode, if answer.is_some() { "answer_printed" } else { "exit_status_zero" });
                    let v = Violation {
                        property: "C17".into(),
                        key: key.clone(),
                        message: format!("crustabri {}: the external solver failed ({}) at SAT call {} but the process exited with {:?} and printed {:?}", inv.args.join(" "), mode, k, r.code, r.stdout),
                        case: json!({"engine": "cli", "bin": inv.bin, "args": inv.args, "stdout": r.stdout, "exit": r.code}),
                    };
                    let e = acc.violations.entry(key).or_insert((0, v));
                    e.0 += 1;
                } else {
                    acc.aborted += 1;
                }
            }
            acc
        })
        .reduce(Acc::default, Acc::merge);
    rep.traces += cacc.triggered;
    rep.evaluations += cacc.triggered;
    rep.states += cacc.triggered;
    rep.transitions += cacc.runs;
    rep.extra.insert(
        "space:external backend failing at SAT call k through `crustabri solve --external-sat-solver`".into(),
        json!({"processes": cacc.runs, "runs_in_which_the_failure_was_reached": cacc.triggered, "non_zero_exit_without_answer": cacc.aborted, "failures_reached_per_mode": cacc.modes_triggered}),
    );
    for (_, (n, v)) in cacc.violations {
        rep.n_violations += n - 1;
        rep.add_violation(v);
    }
}
