//! C17, process level (filled in with the CLI sweeps).
use crate::report::{Report, Tier};
pub fn run_process(_rep: &mut Report, _tier: Tier) {}
