//! C11: statuses are invariant under presentation and local to components; answers for different
//! semantics are mutually consistent.
//!  small scope (with reference): every graph of U(<=3) in every argument permutation, attack-line
//!    order, duplication pattern, reader, and disjoint union with 8 frameworks in 3 placements;
//!  large scope (no reference available): a finite, fully enumerated grid of structured frameworks
//!    of 20..300 arguments x presentations; oracles: equality with the identity presentation under
//!    the renaming, cross-semantics consistency, and direct (polynomial) verification of every
//!    returned extension / certificate.

use crate::choicesat::catch;
use crate::refmodel::{Graph, RefAnswers, Sem, ALL_SEMS};
use crate::report::{Report, Tier, Violation};
use crate::staticq::{cadical_factory, encoder_menu, judge, run_query, Enc, Out, QKind, Query};
use crate::universe::{permutations, Built};
use crustabri::io::{AspartixReader, Iccma23Reader, InstanceReader};
use crustabri::utils::LabelType;
use rayon::prelude::*;
use serde_json::{json, Value};
use std::collections::BTreeMap;

/// A concrete textual presentation of a graph.
#[derive(Clone, Debug)]
pub struct Pres {
    /// position of base argument i in the declaration order (label = position + 1 for ICCMA)
    pub perm: Vec<usize>,
    /// attack lines, as indices into g.att, in file order (with repetitions)
    pub lines: Vec<usize>,
    pub apx: bool,
    pub desc: String,
}

fn apx_name(pos: usize) -> String {
    format!("x{}", pos)
}

pub fn build_iccma(g: &Graph, p: &Pres) -> Built<usize> {
    let mut text = format!("p af {}\n", g.n);
    for &li in &p.lines {
        let (a, b) = g.att[li];
        text.push_str(&format!("{} {}\n", p.perm[a] + 1, p.perm[b] + 1));
    }
    let af = Iccma23Reader::default().read(&mut text.as_bytes()).expect("harness: generated ICCMA text rejected");
    Built { af, labels: (0..g.n).map(|i| p.perm[i] + 1).collect() }
}

pub fn build_apx_pres(g: &Graph, p: &Pres) -> Built<String> {
    let mut inv = vec![0; g.n];
    for i in 0..g.n {
        inv[p.perm[i]] = i;
    }
    let mut text = String::new();
    for pos in 0..g.n {
        text.push_str(&format!("arg({}).\n", apx_name(pos)));
    }
    for &li in &p.lines {
        let (a, b) = g.att[li];
        text.push_str(&format!("att({},{}).\n", apx_name(p.perm[a]), apx_name(p.perm[b])));
    }
    let af = AspartixReader::default().read(&mut text.as_bytes()).expect("harness: generated Aspartix text rejected");
    let _ = inv;
    Built { af, labels: (0..g.n).map(|i| apx_name(p.perm[i])).collect() }
}

fn all_queries(n: usize, args: &[usize], certs: &[bool]) -> Vec<Query> {
    let mut out = vec![];
    for kind in [QKind::SE, QKind::DC, QKind::DS] {
        for sem in ALL_SEMS {
            // default CLI encoder of the problem
            let enc = *encoder_menu(kind, sem, false).first().unwrap();
            match kind {
                QKind::SE => out.push(Query { kind, sem, args: vec![], cert: false, enc }),
                _ => {
                    for &a in args {
                        if a < n {
                            for &c in certs {
                                out.push(Query { kind, sem, args: vec![a], cert: c, enc });
                            }
                        }
                    }
                }
            }
        }
    }
    out
}

fn answers<T: LabelType>(b: &Built<T>, qs: &[Query]) -> Vec<Result<Out, String>> {
    qs.iter().map(|q| catch(|| run_query(b, q, cadical_factory()))).collect()
}

#[derive(Default)]
struct Acc {
    presentations: u64,
    queries: u64,
    nontrivial: u64,
    violations: BTreeMap<String, (u64, Violation)>,
    sample: Vec<Value>,
}

impl Acc {
    fn merge(mut self, o: Acc) -> Acc {
        self.presentations += o.presentations;
        self.queries += o.queries;
        self.nontrivial += o.nontrivial;
        for (k, (n, v)) in o.violations {
            let e = self.violations.entry(k).or_insert((0, v));
            e.0 += n;
        }
        for s in o.sample {
            if self.sample.len() < 3 {
                self.sample.push(s);
            }
        }
        self
    }
    fn add(&mut self, key: String, message: String, case: Value) {
        let v = Violation { property: "C11".into(), key: key.clone(), message, case };
        let e = self.violations.entry(key).or_insert((0, v));
        e.0 += 1;
    }
}

// ---------------------------------------------------------------------------------------------
// small scope

fn orders_of(m: usize, all_limit: usize) -> Vec<Vec<usize>> {
    if m <= all_limit {
        permutations(m)
    } else {
        let id: Vec<usize> = (0..m).collect();
        let mut rev = id.clone();
        rev.reverse();
        let mut rot = id.clone();
        rot.rotate_left(m / 2);
        let mut evens: Vec<usize> = id.iter().cloned().filter(|i| i % 2 == 0).collect();
        evens.extend(id.iter().cloned().filter(|i| i % 2 == 1));
        vec![id, rev, rot, evens]
    }
}

fn small_presentations(g: &Graph, order_limit: usize) -> Vec<Pres> {
    let mut out = vec![];
    let m = g.att.len();
    for perm in permutations(g.n) {
        for ord in orders_of(m, order_limit) {
            for dup in 0..3 {
                let mut lines = vec![];
                for (k, &li) in ord.iter().enumerate() {
                    lines.push(li);
                    if dup == 1 || (dup == 2 && k == 0) {
                        lines.push(li);
                    }
                    if dup == 2 && k == 0 {
                        lines.push(li);
                    }
                }
                for apx in [false, true] {
                    out.push(Pres { perm: perm.clone(), lines: lines.clone(), apx, desc: format!("perm={:?} order={:?} dup={} reader={}", perm, ord, dup, if apx { "apx" } else { "iccma" }) });
                }
            }
        }
    }
    out
}

fn small_companions() -> Vec<(&'static str, Graph)> {
    vec![
        ("empty", Graph::new(0, &[])),
        ("isolated", Graph::new(1, &[])),
        ("self_attacker", Graph::new(1, &[(0, 0)])),
        ("two_cycle", Graph::new(2, &[(0, 1), (1, 0)])),
        ("three_cycle", Graph::new(3, &[(0, 1), (1, 2), (2, 0)])),
        ("path3", Graph::new(3, &[(0, 1), (1, 2)])),
        ("two_components", Graph::new(3, &[(0, 1), (2, 2)])),
        ("stable_only_in_one", Graph::new(3, &[(0, 1), (1, 0), (2, 2)])),
    ]
}

/// union of g with h, arguments of h placed before / after / interleaved; returns the union graph
/// and the index of each argument of g in it
fn place_union(g: &Graph, h: &Graph, placement: usize) -> (Graph, Vec<usize>) {
    let n = g.n + h.n;
    let (gpos, hpos): (Vec<usize>, Vec<usize>) = match placement {
        0 => ((h.n..n).collect(), (0..h.n).collect()),
        1 => ((0..g.n).collect(), (g.n..n).collect()),
        _ => {
            // interleave: alternate as long as both have arguments left
            let mut gp = vec![];
            let mut hp = vec![];
            let mut k = 0;
            let (mut i, mut j) = (0, 0);
            while i < g.n || j < h.n {
                if i < g.n && (k % 2 == 0 || j >= h.n) {
                    gp.push(k);
                    i += 1;
                } else {
                    hp.push(k);
                    j += 1;
                }
                k += 1;
            }
            (gp, hp)
        }
    };
    let mut att: Vec<(usize, usize)> = g.att.iter().map(|&(a, b)| (gpos[a], gpos[b])).collect();
    att.extend(h.att.iter().map(|&(a, b)| (hpos[a], hpos[b])));
    (Graph::new(n, &att), gpos)
}

/// 4-argument frameworks: all 24 argument permutations x 2 attack orders (ICCMA reader), judged by
/// the reference
fn check_perms4(g: &Graph) -> Acc {
    let mut acc = Acc::default();
    let ra = RefAnswers::new(g);
    if ra.ext(Sem::PR).len() >= 2 {
        acc.nontrivial += 1;
    }
    let args: Vec<usize> = (0..g.n).collect();
    let qs = all_queries(g.n, &args, &[false]);
    let m = g.att.len();
    for perm in permutations(g.n) {
        for rev in [false, true] {
            let lines: Vec<usize> = if rev { (0..m).rev().collect() } else { (0..m).collect() };
            let p = Pres { perm: perm.clone(), lines, apx: false, desc: format!("perm={:?} attacks_reversed={}", perm, rev) };
            acc.presentations += 1;
            let outs = answers(&build_iccma(g, &p), &qs);
            for (q, o) in qs.iter().zip(outs.iter()) {
                acc.queries += 1;
                let bad = match o {
                    Ok(out) => {
                        let e = judge(&ra, q, out);
                        if e.is_empty() {
                            None
                        } else {
                            Some(format!("{:?} -- observed {}", e, out.describe()))
                        }
                    }
                    Err(pn) => Some(format!("panic: {}", pn)),
                };
                if let Some(msg) = bad {
                    acc.add(
                        format!("scope=small;what=presentation;problem={}", q.problem()),
                        format!("{} {:?} on {} presented as [{}]: {}", q.problem(), q.args, g.describe(), p.desc, msg),
                        json!({"engine": "presentation", "graph": g.to_json(), "perm": p.perm, "lines": p.lines, "apx": false, "query": q.to_json()}),
                    );
                }
            }
        }
    }
    acc
}

/// sparse 5-argument frameworks under all 120 argument permutations x 2 attack orders, for the
/// range-based semantics (whose search order follows the declaration order)
fn check_perms5_range(g: &Graph) -> Acc {
    let mut acc = Acc::default();
    let ra = RefAnswers::new(g);
    if ra.ext(Sem::STG).len() >= 2 {
        acc.nontrivial += 1;
    }
    let mut qs = vec![];
    for sem in [Sem::SST, Sem::STG] {
        for kind in [QKind::DC, QKind::DS] {
            let enc = *encoder_menu(kind, sem, false).first().unwrap();
            for a in 0..g.n {
                qs.push(Query { kind, sem, args: vec![a], cert: false, enc });
            }
        }
    }
    let m = g.att.len();
    for perm in permutations(g.n) {
        for rev in [false, true] {
            let lines: Vec<usize> = if rev { (0..m).rev().collect() } else { (0..m).collect() };
            let p = Pres { perm: perm.clone(), lines, apx: false, desc: format!("perm={:?} attacks_reversed={}", perm, rev) };
            acc.presentations += 1;
            let outs = answers(&build_iccma(g, &p), &qs);
            for (q, o) in qs.iter().zip(outs.iter()) {
                acc.queries += 1;
                let bad = match o {
                    Ok(out) => {
                        let e = judge(&ra, q, out);
                        if e.is_empty() {
                            None
                        } else {
                            Some(format!("{:?} -- observed {}", e, out.describe()))
                        }
                    }
                    Err(pn) => Some(format!("panic: {}", pn)),
                };
                if let Some(msg) = bad {
                    acc.add(
                        format!("scope=small;what=presentation;problem={}", q.problem()),
                        format!("{} {:?} on {} presented as [{}]: {}", q.problem(), q.args, g.describe(), p.desc, msg),
                        json!({"engine": "presentation", "graph": g.to_json(), "perm": p.perm, "lines": p.lines, "apx": false, "query": q.to_json()}),
                    );
                }
            }
        }
    }
    acc
}

/// locality and encoder-independence on frameworks that reach the hybrid encoder's auxiliary
/// branch: statuses on t must equal statuses on t united with a copy of another such framework,
/// for every selectable encoder (the encoder object is used once per component within a query)
fn check_threshold_unions() -> Acc {
    use crate::staticq::make_solver;
    let mut acc = Acc::default();
    let fam: Vec<(String, Graph)> = crate::universe::threshold_family().into_iter().filter(|(_, g)| g.n <= 8).collect();
    for (name, t) in &fam {
        let ra_t = RefAnswers::new(t);
        for (oname, o) in &fam {
            let ra_o = RefAnswers::new(o);
            let o_has_stable = !ra_o.ext(Sem::ST).is_empty();
            let u = t.union(o);
            let bt = crate::universe::build_usize(t, crate::universe::Presentation::Compact);
            let bu = crate::universe::build_usize(&u, crate::universe::Presentation::Compact);
            acc.presentations += 1;
            for kind in [QKind::SE, QKind::DC, QKind::DS] {
                for sem in ALL_SEMS {
                    for enc in encoder_menu(kind, sem, false) {
                        let args: Vec<Vec<usize>> = if kind == QKind::SE { vec![vec![]] } else { vec![vec![0], vec![1], vec![t.n - 1]] };
                        for a in args {
                            for cert in if kind == QKind::SE { vec![false] } else { vec![false, true] } {
                                acc.queries += 1;
                                let on_t = catch(|| make_solver(&bt, kind, sem, enc, cadical_factory()).query(&bt, kind, &a, cert));
                                let on_u = catch(|| make_solver(&bu, kind, sem, enc, cadical_factory()).query(&bu, kind, &a, cert));
                                let st = |r: &Result<Out, String>| r.as_ref().ok().and_then(|o| o.status());
                                // restriction of a returned SE set to the arguments of t
                                let restr = |r: &Result<Out, String>| match r {
                                    Ok(Out::Ext(Some(Ok(m)))) => Some(m & ((1u32 << t.n) - 1)),
                                    _ => None,
                                };
                                let mut problem = None;
                                // ST: a companion without stable extension flips every status
                                let exp_u = if sem == Sem::ST && !o_has_stable { Some(kind == QKind::DS) } else { st(&on_t) };
                                if exp_u != st(&on_u) || on_t.is_err() || on_u.is_err() {
                                    problem = Some(format!("status alone {:?}, in the union {:?}", on_t.as_ref().map(|o| o.describe()), on_u.as_ref().map(|o| o.describe())));
                                } else if kind == QKind::SE && matches!(sem, Sem::GR | Sem::ID) && restr(&on_t) != restr(&on_u) {
                                    problem = Some(format!("the unique {} extension restricted to the component changes: alone {:?}, in the union {:?}", sem.name(), restr(&on_t), restr(&on_u)));
                                } else {
                                    // every returned set (extension or certificate) restricted to a component must be
                                    // an extension of that component (extensions of a disjoint union are unions of
                                    // extensions of the parts, for all seven semantics)
                                    let set = match &on_u {
                                        Ok(Out::Ext(Some(Ok(m)))) => Some((*m, sem)),
                                        Ok(Out::StatusCert(_, Some(Ok(m)))) => Some((*m, if kind == QKind::DC && sem == Sem::PR { Sem::CO } else { sem })),
                                        Ok(Out::Ext(Some(Err(e)))) | Ok(Out::StatusCert(_, Some(Err(e)))) => {
                                            problem = Some(format!("returned set is not made of the framework's arguments: {}", e));
                                            None
                                        }
                                        _ => None,
                                    };
                                    if let Some((m, csem)) = set {
                                        let mt = m & ((1u32 << t.n) - 1);
                                        let mo = m >> t.n;
                                        if !ra_t.ext(csem).contains(&mt) || !ra_o.ext(csem).contains(&mo) {
                                            problem = Some(format!("returned set {:?} restricted to a component is not a {} extension of that component", crate::refmodel::mask_to_vec(m), csem.name()));
                                        }
                                    }
                                }
                                if let Some(m) = problem {
                                    acc.add(
                                        format!("scope=threshold;what=locality;problem={}-{};enc={}", kind.name(), sem.name(), enc.name()),
                                        format!("{}-{} {:?} cert={} enc={} on {} vs. united with {}: {}", kind.name(), sem.name(), a, cert, enc.name(), name, oname, m),
                                        json!({"engine": "threshold_union", "graph": t.to_json(), "companion": o.to_json(), "kind": kind.name(), "sem": sem.name(), "enc": enc.name(), "args": a, "cert": cert}),
                                    );
                                }
                            }
                        }
                    }
                }
            }
        }
    }
    acc
}

fn check_small(g: &Graph, order_limit: usize) -> Acc {
    let mut acc = Acc::default();
    let ra = RefAnswers::new(g);
    if ra.ext(Sem::PR).len() >= 2 {
        acc.nontrivial += 1;
    }
    let args: Vec<usize> = (0..g.n).collect();
    let qs = all_queries(g.n, &args, &[false]);
    for p in small_presentations(g, order_limit) {
        acc.presentations += 1;
        let outs = if p.apx { answers(&build_apx_pres(g, &p), &qs) } else { answers(&build_iccma(g, &p), &qs) };
        for (q, o) in qs.iter().zip(outs.iter()) {
            acc.queries += 1;
            let bad = match o {
                Ok(out) => {
                    let e = judge(&ra, q, out);
                    if e.is_empty() {
                        None
                    } else {
                        Some(format!("{:?} -- observed {}", e, out.describe()))
                    }
                }
                Err(pn) => Some(format!("panic: {}", pn)),
            };
            if let Some(m) = bad {
                acc.add(
                    format!("scope=small;what=presentation;problem={}", q.problem()),
                    format!("{} {:?} on {} presented as [{}]: {}", q.problem(), q.args, g.describe(), p.desc, m),
                    json!({"engine": "presentation", "graph": g.to_json(), "perm": p.perm, "lines": p.lines, "apx": p.apx, "query": q.to_json()}),
                );
            }
        }
    }
    // disjoint unions: judged by the reference of the union graph, and explicitly by the locality rule
    for (hname, h) in small_companions() {
        let rh = RefAnswers::new(&h);
        let h_has_stable = !rh.ext(Sem::ST).is_empty();
        for placement in 0..3 {
            let (u, gpos) = place_union(g, &h, placement);
            let ru = RefAnswers::new(&u);
            let ident = Pres { perm: (0..u.n).collect(), lines: (0..u.att.len()).collect(), apx: false, desc: String::new() };
            let uqs = all_queries(u.n, &gpos, &[false]);
            for apx in [false, true] {
                acc.presentations += 1;
                let outs = if apx { answers(&build_apx_pres(&u, &Pres { apx: true, ..ident.clone() }), &uqs) } else { answers(&build_iccma(&u, &ident), &uqs) };
                for (q, o) in uqs.iter().zip(outs.iter()) {
                    acc.queries += 1;
                    let mut problem: Option<String> = None;
                    match o {
                        Ok(out) => {
                            let e = judge(&ru, q, out);
                            if !e.is_empty() {
                                problem = Some(format!("{:?} -- observed {}", e, out.describe()));
                            } else if q.kind != QKind::SE {
                                // locality, stated without the union's reference: status in g, except for ST
                                // when the other component has no stable extension
                                let base_arg = gpos.iter().position(|&x| x == q.args[0]).unwrap();
                                let bq = Query { args: vec![base_arg], ..q.clone() };
                                let mut exp = crate::staticq::expected_status(&ra, &bq);
                                if q.sem == Sem::ST && !h_has_stable {
                                    exp = q.kind == QKind::DS;
                                }
                                if out.status() != Some(exp) {
                                    problem = Some(format!("locality: status {:?}, but in the component alone it is {} (other component '{}' has stable extension: {})", out.status(), exp, hname, h_has_stable));
                                }
                            }
                        }
                        Err(pn) => problem = Some(format!("panic: {}", pn)),
                    }
                    if let Some(m) = problem {
                        acc.add(
                            format!("scope=small;what=union;problem={}", q.problem()),
                            format!("{} {:?} on {} united with '{}' (placement {}, reader {}): {}", q.problem(), q.args, g.describe(), hname, placement, if apx { "apx" } else { "iccma" }, m),
                            json!({"engine": "union", "graph": g.to_json(), "companion": hname, "placement": placement, "apx": apx, "query": q.to_json()}),
                        );
                    }
                }
            }
        }
    }
    acc
}

// ---------------------------------------------------------------------------------------------
// large scope

pub fn family(name: &str, s: usize) -> Graph {
    let mut att: Vec<(usize, usize)> = vec![];
    let n = match name {
        "chain" => {
            for i in 0..s - 1 {
                att.push((i, i + 1));
            }
            s
        }
        "even_ring" => {
            let n = s - s % 2;
            for i in 0..n {
                att.push((i, (i + 1) % n));
            }
            n
        }
        "odd_ring" => {
            let n = s - 1 + s % 2;
            for i in 0..n {
                att.push((i, (i + 1) % n));
            }
            n
        }
        "mutual_pairs" => {
            let k = s / 2;
            for i in 0..k {
                att.push((2 * i, 2 * i + 1));
                att.push((2 * i + 1, 2 * i));
            }
            2 * k
        }
        "ladder" => {
            // two chains with rungs attacking across
            let k = s / 2;
            for i in 0..k {
                if i + 1 < k {
                    att.push((i, i + 1));
                    att.push((k + i, k + i + 1));
                }
                att.push((i, k + i));
            }
            2 * k
        }
        "bipartite" => {
            let k = (s / 2).min(12);
            let m = s - k;
            for i in 0..k {
                for j in 0..m {
                    if (i + j) % 3 != 0 {
                        att.push((i, k + j));
                    }
                }
            }
            s
        }
        "star" => {
            // the centre is attacked by every leaf; every second leaf is attacked back
            for i in 1..s {
                att.push((i, 0));
                if i % 2 == 0 {
                    att.push((0, i));
                }
            }
            s
        }
        "grid" => {
            let w = (s as f64).sqrt() as usize;
            for r in 0..w {
                for c in 0..w {
                    if c + 1 < w {
                        att.push((r * w + c, r * w + c + 1));
                    }
                    if r + 1 < w {
                        att.push((r * w + c, (r + 1) * w + c));
                    }
                }
            }
            w * w
        }
        "tree" => {
            // in-tree: every node attacks its parent; leaves at odd depth self-attack
            for i in 1..s {
                att.push((i, (i - 1) / 2));
            }
            for i in s / 2..s {
                if i % 5 == 0 {
                    att.push((i, i));
                }
            }
            s
        }
        "chord_ring" => {
            for i in 0..s {
                att.push((i, (i + 1) % s));
                if i % 3 == 0 {
                    att.push((i, (i + 3) % s));
                }
            }
            s
        }
        _ => panic!("unknown family"),
    };
    let mut g = Graph { n, att };
    g.att.sort();
    g.att.dedup();
    g
}

pub const FAMILIES: [&str; 10] = ["chain", "even_ring", "odd_ring", "mutual_pairs", "ladder", "bipartite", "star", "grid", "tree", "chord_ring"];

pub struct Big {
    pub n: usize,
    pub atk: Vec<Vec<usize>>, // attackers of each argument
    pub tgt: Vec<Vec<usize>>,
}

impl Big {
    pub fn new(g: &Graph) -> Self {
        let mut atk = vec![vec![]; g.n];
        let mut tgt = vec![vec![]; g.n];
        for &(a, b) in &g.att {
            atk[b].push(a);
            tgt[a].push(b);
        }
        Big { n: g.n, atk, tgt }
    }
    pub fn set(&self, v: &[usize]) -> Vec<bool> {
        let mut s = vec![false; self.n];
        for &x in v {
            s[x] = true;
        }
        s
    }
    pub fn attacked_by(&self, s: &[bool]) -> Vec<bool> {
        let mut r = vec![false; self.n];
        for a in 0..self.n {
            if s[a] {
                for &t in &self.tgt[a] {
                    r[t] = true;
                }
            }
        }
        r
    }
    pub fn conflict_free(&self, s: &[bool]) -> bool {
        let p = self.attacked_by(s);
        (0..self.n).all(|a| !(s[a] && p[a]))
    }
    pub fn defended(&self, s: &[bool]) -> Vec<bool> {
        let p = self.attacked_by(s);
        (0..self.n).map(|a| self.atk[a].iter().all(|&b| p[b])).collect()
    }
    pub fn admissible(&self, s: &[bool]) -> bool {
        let d = self.defended(s);
        self.conflict_free(s) && (0..self.n).all(|a| !s[a] || d[a])
    }
    pub fn complete(&self, s: &[bool]) -> bool {
        let d = self.defended(s);
        self.conflict_free(s) && (0..self.n).all(|a| s[a] == d[a])
    }
    pub fn stable(&self, s: &[bool]) -> bool {
        let p = self.attacked_by(s);
        self.conflict_free(s) && (0..self.n).all(|a| s[a] || p[a])
    }
    pub fn grounded(&self) -> Vec<bool> {
        let mut s = vec![false; self.n];
        loop {
            let d = self.defended(&s);
            if d == s {
                return s;
            }
            s = d;
        }
    }
}

fn mask_to_indices(out: &Out) -> Option<Vec<usize>> {
    None.or(match out {
        Out::Ext(Some(Ok(_))) | Out::StatusCert(_, Some(Ok(_))) => None,
        _ => None,
    })
}

/// big frameworks need their own observation (sets do not fit in a 32-bit mask)
#[derive(Clone, Debug, PartialEq, Eq)]
pub enum BigOut {
    Ext(Option<Vec<usize>>),
    Status(bool, Option<Vec<usize>>),
    Panic(String),
}

pub fn big_query<T: LabelType>(b: &Built<T>, kind: QKind, sem: Sem, arg: Option<usize>, cert: bool) -> BigOut {
    use crate::staticq::make_solver;
    let enc = *encoder_menu(kind, sem, false).first().unwrap();
    let idx = |v: Vec<&crustabri::aa::Argument<T>>| -> Vec<usize> {
        let mut r: Vec<usize> = v.iter().map(|a| b.index_of(a.label()).expect("unknown label in answer")).collect();
        r.sort();
        r
    };
    let r = catch(|| {
        let mut s = make_solver(b, kind, sem, enc, cadical_factory());
        big_dispatch(&mut s, b, kind, arg, cert, &idx)
    });
    match r {
        Ok(o) => o,
        Err(p) => BigOut::Panic(p),
    }
}

fn big_dispatch<T: LabelType>(
    s: &mut crate::staticq::AnySolver<T>,
    b: &Built<T>,
    kind: QKind,
    arg: Option<usize>,
    cert: bool,
    idx: &dyn Fn(Vec<&crustabri::aa::Argument<T>>) -> Vec<usize>,
) -> BigOut {
    use crate::staticq::AnySolver as A;
    use crustabri::solvers::{CredulousAcceptanceComputer, SingleExtensionComputer, SkepticalAcceptanceComputer};
    macro_rules! se {
        ($x:expr) => {
            BigOut::Ext($x.compute_one_extension().map(|v| idx(v)))
        };
    }
    macro_rules! dc {
        ($x:expr) => {{
            let l = &b.labels[arg.unwrap()];
            if cert {
                let (st, c) = $x.is_credulously_accepted_with_certificate(l);
                BigOut::Status(st, c.map(|v| idx(v)))
            } else {
                BigOut::Status($x.is_credulously_accepted(l), None)
            }
        }};
    }
    macro_rules! ds {
        ($x:expr) => {{
            let l = &b.labels[arg.unwrap()];
            if cert {
                let (st, c) = $x.is_skeptically_accepted_with_certificate(l);
                BigOut::Status(st, c.map(|v| idx(v)))
            } else {
                BigOut::Status($x.is_skeptically_accepted(l), None)
            }
        }};
    }
    match (kind, s) {
        (QKind::SE, A::Gr(x)) => se!(x),
        (QKind::SE, A::Pr(x)) => se!(x),
        (QKind::SE, A::St(x)) => se!(x),
        (QKind::SE, A::Sst(x)) => se!(x),
        (QKind::SE, A::Stg(x)) => se!(x),
        (QKind::SE, A::Id(x)) => se!(x),
        (QKind::DC, A::Gr(x)) => dc!(x),
        (QKind::DC, A::Co(x)) => dc!(x),
        (QKind::DC, A::St(x)) => dc!(x),
        (QKind::DC, A::Sst(x)) => dc!(x),
        (QKind::DC, A::Stg(x)) => dc!(x),
        (QKind::DC, A::Id(x)) => dc!(x),
        (QKind::DS, A::Gr(x)) => ds!(x),
        (QKind::DS, A::Pr(x)) => ds!(x),
        (QKind::DS, A::St(x)) => ds!(x),
        (QKind::DS, A::Sst(x)) => ds!(x),
        (QKind::DS, A::Stg(x)) => ds!(x),
        (QKind::DS, A::Id(x)) => ds!(x),
        _ => panic!("harness: unsupported"),
    }
}

#[derive(Clone)]
struct BigAnswers {
    se: BTreeMap<Sem, BigOut>,
    dc: BTreeMap<(Sem, usize), BigOut>,
    ds: BTreeMap<(Sem, usize), BigOut>,
}

fn big_answers<T: LabelType>(b: &Built<T>, args: &[usize]) -> BigAnswers {
    let mut a = BigAnswers { se: BTreeMap::new(), dc: BTreeMap::new(), ds: BTreeMap::new() };
    for sem in ALL_SEMS {
        a.se.insert(sem, big_query(b, QKind::SE, sem, None, false));
        for &x in args {
            a.dc.insert((sem, x), big_query(b, QKind::DC, sem, Some(x), true));
            a.ds.insert((sem, x), big_query(b, QKind::DS, sem, Some(x), true));
        }
    }
    a
}

pub fn status_of(o: &BigOut) -> Option<bool> {
    match o {
        BigOut::Ext(e) => Some(e.is_some()),
        BigOut::Status(b, _) => Some(*b),
        BigOut::Panic(_) => None,
    }
}

/// consistency of the answers on ONE framework, with direct verification of every returned set
fn consistency(g: &Graph, a: &BigAnswers, args: &[usize]) -> Vec<(String, String)> {
    let big = Big::new(g);
    let mut errs: Vec<(String, String)> = vec![];
    let mut err = |what: &str, msg: String| errs.push((what.to_string(), msg));
    let gr = big.grounded();
    let base_ok = |sem: Sem, v: &Vec<usize>| -> Result<(), String> {
        let mut sorted = v.clone();
        sorted.dedup();
        if sorted.len() != v.len() {
            return Err("set lists an argument twice".into());
        }
        let s = big.set(v);
        let ok = match sem {
            Sem::GR => s == gr,
            Sem::CO | Sem::PR | Sem::SST | Sem::ID => big.complete(&s),
            Sem::ST => big.stable(&s),
            Sem::STG => big.conflict_free(&s),
        };
        if ok {
            Ok(())
        } else {
            Err(format!("returned set {:?} fails the direct check for {} (grounded equality / complete / stable / conflict-free)", v, sem.name()))
        }
    };
    for (sem, o) in &a.se {
        match o {
            BigOut::Panic(p) => err("panic", format!("SE-{} panicked: {}", sem.name(), p)),
            BigOut::Ext(None) => {
                if *sem != Sem::ST {
                    err("no_extension", format!("SE-{} reports no extension", sem.name()));
                }
            }
            BigOut::Ext(Some(v)) => {
                if let Err(m) = base_ok(*sem, v) {
                    err("invalid_extension", format!("SE-{}: {}", sem.name(), m));
                }
            }
            _ => {}
        }
    }
    let ext = |sem: Sem| -> Option<Vec<bool>> {
        match a.se.get(&sem) {
            Some(BigOut::Ext(Some(v))) => Some(big.set(v)),
            _ => None,
        }
    };
    // GR within ID within every PR witness
    if let (Some(id), Some(pr)) = (ext(Sem::ID), ext(Sem::PR)) {
        if (0..big.n).any(|x| gr[x] && !id[x]) {
            err("gr_not_in_id", "the grounded extension is not included in the ideal extension".into());
        }
        if (0..big.n).any(|x| id[x] && !pr[x]) {
            err("id_not_in_pr", "the ideal extension is not included in the preferred extension returned by SE-PR".into());
        }
    }
    let st_exists = matches!(a.se.get(&Sem::ST), Some(BigOut::Ext(Some(_))));
    for &x in args {
        for (sem_kind, map) in [("DC", &a.dc), ("DS", &a.ds)] {
            for sem in ALL_SEMS {
                match map.get(&(sem, x)) {
                    Some(BigOut::Panic(p)) => err("panic", format!("{}-{} {} panicked: {}", sem_kind, sem.name(), x, p)),
                    Some(BigOut::Status(st, c)) => {
                        let promised = (sem_kind == "DC") == *st;
                        match (promised, c) {
                            (true, None) => err("certificate_missing", format!("{}-{} {}: certificate promised but missing", sem_kind, sem.name(), x)),
                            (false, Some(_)) => err("certificate_unexpected", format!("{}-{} {}: certificate not promised but given", sem_kind, sem.name(), x)),
                            (true, Some(v)) => {
                                let csem = if sem_kind == "DC" && sem == Sem::PR { Sem::CO } else { sem };
                                if let Err(m) = base_ok(csem, v) {
                                    err("invalid_certificate", format!("{}-{} {}: {}", sem_kind, sem.name(), x, m));
                                }
                                if (sem_kind == "DC") != v.contains(&x) {
                                    err("invalid_certificate", format!("{}-{} {}: certificate {:?} {} the argument", sem_kind, sem.name(), x, v, if sem_kind == "DC" { "misses" } else { "contains" }));
                                }
                                // every PR / SST / ID / CO witness contains the grounded extension
                                if matches!(csem, Sem::CO | Sem::PR | Sem::SST | Sem::ID | Sem::ST) {
                                    let s = big.set(v);
                                    if (0..big.n).any(|y| gr[y] && !s[y]) {
                                        err("gr_not_in_witness", format!("{}-{} {}: witness does not contain the grounded extension", sem_kind, sem.name(), x));
                                    }
                                }
                            }
                            _ => {}
                        }
                    }
                    _ => {}
                }
            }
        }
        let st = |m: &BTreeMap<(Sem, usize), BigOut>, sem: Sem| m.get(&(sem, x)).and_then(status_of);
        if st(&a.dc, Sem::CO) != st(&a.dc, Sem::PR) {
            err("dc_co_ne_dc_pr", format!("DC-CO {} = {:?} but DC-PR {} = {:?}", x, st(&a.dc, Sem::CO), x, st(&a.dc, Sem::PR)));
        }
        if st(&a.ds, Sem::CO) != Some(gr[x]) || st(&a.dc, Sem::GR) != Some(gr[x]) || st(&a.ds, Sem::GR) != Some(gr[x]) {
            err("grounded_membership", format!("DS-CO / DC-GR / DS-GR of {} disagree with membership in the grounded extension ({})", x, gr[x]));
        }
        for sem in ALL_SEMS {
            let exists = sem != Sem::ST || st_exists;
            if exists && st(&a.ds, sem) == Some(true) && st(&a.dc, sem) == Some(false) {
                err("skeptical_without_credulous", format!("{} is skeptically but not credulously accepted under {} although an extension exists", x, sem.name()));
            }
        }
        if !st_exists {
            if st(&a.dc, Sem::ST) != Some(false) || st(&a.ds, Sem::ST) != Some(true) {
                err("no_stable_convention", format!("no stable extension, but DC-ST {} = {:?}, DS-ST {} = {:?}", x, st(&a.dc, Sem::ST), x, st(&a.ds, Sem::ST)));
            }
        } else {
            for other in [Sem::SST, Sem::STG] {
                if st(&a.dc, Sem::ST) != st(&a.dc, other) || st(&a.ds, Sem::ST) != st(&a.ds, other) {
                    err("st_sst_stg_differ", format!("a stable extension exists but ST and {} statuses of {} differ: DC {:?}/{:?}, DS {:?}/{:?}", other.name(), x, st(&a.dc, Sem::ST), st(&a.dc, other), st(&a.ds, Sem::ST), st(&a.ds, other)));
                }
            }
        }
        // GR within ID: grounded arguments are ideal-accepted; ideal-accepted are skeptically preferred
        if gr[x] && st(&a.dc, Sem::ID) == Some(false) {
            err("gr_not_in_id", format!("{} is grounded but not in the ideal extension", x));
        }
        if st(&a.dc, Sem::ID) == Some(true) && st(&a.ds, Sem::PR) == Some(false) {
            err("id_not_in_pr", format!("{} is in the ideal extension but not skeptically preferred", x));
        }
    }
    let _ = mask_to_indices;
    errs
}

fn big_presentations(g: &Graph) -> Vec<Pres> {
    let n = g.n;
    let m = g.att.len();
    let id: Vec<usize> = (0..n).collect();
    let arg_orders: Vec<(&str, Vec<usize>)> = vec![
        ("identity", id.clone()),
        ("reversed", (0..n).map(|i| n - 1 - i).collect()),
        ("rotated1", (0..n).map(|i| (i + 1) % n).collect()),
        ("rotated_half", (0..n).map(|i| (i + n / 2) % n).collect()),
        ("evens_then_odds", {
            let mut pos = vec![0; n];
            let mut k = 0;
            for i in (0..n).step_by(2) {
                pos[i] = k;
                k += 1;
            }
            for i in (1..n).step_by(2) {
                pos[i] = k;
                k += 1;
            }
            pos
        }),
    ];
    let lid: Vec<usize> = (0..m).collect();
    let mut by_target = lid.clone();
    by_target.sort_by_key(|&i| (g.att[i].1, g.att[i].0));
    let att_orders: Vec<(&str, Vec<usize>)> = vec![("identity", lid.clone()), ("reversed", lid.iter().rev().cloned().collect()), ("by_target", by_target)];
    let mut out = vec![];
    for (k, (an, perm)) in arg_orders.iter().enumerate() {
        for (j, (on, ord)) in att_orders.iter().enumerate() {
            let dup = (k + j) % 2 == 1;
            let mut lines = vec![];
            for &li in ord {
                lines.push(li);
                if dup {
                    lines.push(li);
                }
            }
            out.push(Pres { perm: perm.clone(), lines, apx: (k + 2 * j) % 3 == 2, desc: format!("args={} attacks={} dup={}", an, on, dup) });
        }
    }
    out
}

fn check_big(fam: &str, size: usize) -> Acc {
    let mut acc = Acc::default();
    let g = family(fam, size);
    let n = g.n;
    let mut args = vec![0, 1 % n, n / 2, n - 1];
    args.sort();
    args.dedup();
    let pres = big_presentations(&g);
    let ident = &pres[0];
    let base = big_answers(&build_iccma(&g, ident), &args);
    acc.presentations += 1;
    acc.queries += (7 + 14 * args.len()) as u64;
    acc.nontrivial += 1;
    for (what, msg) in consistency(&g, &base, &args) {
        acc.add(format!("scope=large;what={}", what), format!("{}({}) identity presentation: {}", fam, size, msg), json!({"engine": "large", "family": fam, "size": size, "presentation": ident.desc}));
    }
    if acc.sample.is_empty() {
        acc.sample.push(json!({"family": fam, "size": size, "arguments": n, "attacks": g.att.len(), "queried": args, "SE-ST": format!("{:?}", status_of(base.se.get(&Sem::ST).unwrap()))}));
    }
    let cmp = |acc: &mut Acc, other: &BigAnswers, desc: &str, gg: &Graph| {
        for sem in ALL_SEMS {
            if status_of(&base.se[&sem]) != status_of(&other.se[&sem]) {
                acc.add(format!("scope=large;what=status_changed;problem=SE-{}", sem.name()), format!("{}({}) presented as [{}]: SE-{} existence differs from the identity presentation", fam, size, desc, sem.name()), json!({"engine": "large", "family": fam, "size": size, "presentation": desc}));
            }
            for &x in &args {
                for (k, m1, m2) in [("DC", &base.dc, &other.dc), ("DS", &base.ds, &other.ds)] {
                    if status_of(&m1[&(sem, x)]) != status_of(&m2[&(sem, x)]) {
                        acc.add(
                            format!("scope=large;what=status_changed;problem={}-{}", k, sem.name()),
                            format!("{}({}) presented as [{}]: {}-{} of argument {} is {:?}, identity presentation gives {:?}", fam, size, desc, k, sem.name(), x, status_of(&m2[&(sem, x)]), status_of(&m1[&(sem, x)])),
                            json!({"engine": "large", "family": fam, "size": size, "presentation": desc, "argument": x}),
                        );
                    }
                }
            }
        }
        for (what, msg) in consistency(gg, other, &args) {
            acc.add(format!("scope=large;what={}", what), format!("{}({}) presented as [{}]: {}", fam, size, desc, msg), json!({"engine": "large", "family": fam, "size": size, "presentation": desc}));
        }
    };
    for p in pres.iter().skip(1) {
        acc.presentations += 1;
        acc.queries += (7 + 14 * args.len()) as u64;
        let other = if p.apx { big_answers(&build_apx_pres(&g, p), &args) } else { big_answers(&build_iccma(&g, p), &args) };
        cmp(&mut acc, &other, &p.desc, &g);
    }
    // unions with an unrelated component that has a stable extension: statuses unchanged; with a
    // 3-cycle (no stable extension): ST flips, everything else unchanged
    for (hname, h) in [("three_cycle", crate::universe::ring(3)), ("two_cycle", crate::universe::ring(2)), ("isolated", Graph::new(1, &[]))] {
        let u = g.union(&h);
        let identu = Pres { perm: (0..u.n).collect(), lines: (0..u.att.len()).collect(), apx: false, desc: format!("union with {}", hname) };
        acc.presentations += 1;
        acc.queries += (7 + 14 * args.len()) as u64;
        let other = big_answers(&build_iccma(&u, &identu), &args);
        let h_stable = hname != "three_cycle";
        for sem in ALL_SEMS {
            for &x in &args {
                for (k, m1, m2) in [("DC", &base.dc, &other.dc), ("DS", &base.ds, &other.ds)] {
                    let mut exp = status_of(&m1[&(sem, x)]);
                    if sem == Sem::ST && !h_stable {
                        exp = Some(k == "DS");
                    }
                    if status_of(&m2[&(sem, x)]) != exp {
                        acc.add(
                            format!("scope=large;what=locality;problem={}-{}", k, sem.name()),
                            format!("{}({}) united with {}: {}-{} of argument {} is {:?}, expected {:?}", fam, size, hname, k, sem.name(), x, status_of(&m2[&(sem, x)]), exp),
                            json!({"engine": "large", "family": fam, "size": size, "presentation": identu.desc, "argument": x}),
                        );
                    }
                }
            }
        }
        for (what, msg) in consistency(&u, &other, &args) {
            acc.add(format!("scope=large;what={}", what), format!("{}({}) united with {}: {}", fam, size, hname, msg), json!({"engine": "large", "family": fam, "size": size, "presentation": identu.desc}));
        }
    }
    acc
}

pub fn run(tier: Tier) -> i32 {
    let mut rep = Report::new("C11", tier);
    let thorough = tier == Tier::Thorough;
    // small scope
    let graphs = crate::universe::universe_upto(3);
    let limit = if thorough { 4 } else { 3 };
    let acc = graphs.par_iter().with_max_len(1).map(|g| check_small(g, limit)).reduce(Acc::default, Acc::merge);
    rep.states += acc.presentations;
    rep.transitions += acc.queries;
    rep.traces += acc.queries;
    rep.evaluations += acc.queries;
    rep.distinct_nontrivial += acc.nontrivial;
    rep.extra.insert("small_scope".into(), json!({"graphs": graphs.len(), "presentations_and_unions": acc.presentations, "queries": acc.queries, "attack_orders": format!("all orders when <= {} attacks, 4 orders otherwise", limit)}));
    for s in acc.sample {
        rep.add_sample(s);
    }
    for (_, (n, v)) in acc.violations {
        rep.n_violations += n - 1;
        rep.add_violation(v);
    }
    // 4-argument frameworks under all permutations
    let g4: Vec<Graph> = if thorough { crate::universe::iso_representatives(4) } else { crate::universe::iso_representatives_sparse(4, 6) };
    let acc = g4.par_iter().with_max_len(1).map(check_perms4).reduce(Acc::default, Acc::merge);
    rep.states += acc.presentations;
    rep.transitions += acc.queries;
    rep.traces += acc.queries;
    rep.evaluations += acc.queries;
    rep.distinct_nontrivial += acc.nontrivial;
    rep.extra.insert("small_scope_4_arguments".into(), json!({"isomorphism_classes": g4.len(), "presentations (24 permutations x 2 attack orders)": acc.presentations, "queries": acc.queries}));
    for (_, (n, v)) in acc.violations {
        rep.n_violations += n - 1;
        rep.add_violation(v);
    }
    // sparse 5-argument frameworks, all 120 permutations, range-based semantics
    let g5: Vec<Graph> = crate::universe::iso_representatives_sparse(5, if thorough { 7 } else { 6 }).into_iter().filter(|g| !RefAnswers::new(g).ext(Sem::ST).is_empty() == false).collect();
    let acc = g5.par_iter().with_max_len(1).map(check_perms5_range).reduce(Acc::default, Acc::merge);
    rep.states += acc.presentations;
    rep.transitions += acc.queries;
    rep.traces += acc.queries;
    rep.evaluations += acc.queries;
    rep.distinct_nontrivial += acc.nontrivial;
    rep.extra.insert("small_scope_5_arguments_range_semantics".into(), json!({"isomorphism_classes_without_stable_extension": g5.len(), "presentations (120 permutations x 2 attack orders)": acc.presentations, "queries (DC/DS-SST/STG on every argument)": acc.queries}));
    for (_, (n, v)) in acc.violations {
        rep.n_violations += n - 1;
        rep.add_violation(v);
    }
    // hybrid-threshold frameworks united with one another, every selectable encoder
    let acc = check_threshold_unions();
    rep.states += acc.presentations;
    rep.transitions += acc.queries;
    rep.traces += acc.queries;
    rep.evaluations += acc.queries;
    rep.extra.insert("threshold_unions".into(), json!({"unions": acc.presentations, "queries": acc.queries}));
    for (_, (n, v)) in acc.violations {
        rep.n_violations += n - 1;
        rep.add_violation(v);
    }
    // large scope
    let sizes: Vec<usize> = if thorough { vec![20, 50, 100, 300] } else { vec![20, 50] };
    let cells: Vec<(&str, usize)> = FAMILIES.iter().flat_map(|f| sizes.iter().map(move |&s| (*f, s))).collect();
    let acc = cells.par_iter().with_max_len(1).map(|&(f, s)| check_big(f, s)).reduce(Acc::default, Acc::merge);
    rep.states += acc.presentations;
    rep.transitions += acc.queries;
    rep.traces += acc.queries;
    rep.evaluations += acc.queries;
    rep.distinct_nontrivial += acc.nontrivial;
    rep.extra.insert("large_scope".into(), json!({"families": FAMILIES, "sizes": sizes, "frameworks": cells.len(), "presentations_and_unions": acc.presentations, "queries": acc.queries}));
    for s in acc.sample {
        rep.add_sample(s);
    }
    for (_, (n, v)) in acc.violations {
        rep.n_violations += n - 1;
        rep.add_violation(v);
    }
    rep.add_sample(json!({"small_scope_presentation": "perm=[2,0,1] order=[1,0] dup=2 reader=apx"}));
    rep.rule = "small scope: every graph of U(<=3) in every argument permutation x attack-line order x duplication pattern x reader, and united with 8 companion frameworks in 3 placements; every answer of all 21 problems on every argument is judged by the reference model of the presented graph and by the locality rule; large scope: a finite fully enumerated grid (10 structured families x sizes x 15 presentations + 3 unions) where no reference computation is possible: statuses must equal those of the identity presentation under the renaming, cross-semantics consistency rules must hold and every returned extension / certificate is verified directly; states = presentations, transitions = queries; distinct_nontrivial = frameworks with >= 2 preferred extensions (small) + large frameworks".into();
    rep.bounds = json!({"small": "U(<=3)", "large_sizes": sizes});
    rep.assumptions = vec![
        "the universal claim over ALL 20-300-argument frameworks is outside any exhaustive bound; decided are the complete small scope and the complete finite grid".into(),
        "large scope runs with CaDiCaL only (one oracle behaviour)".into(),
    ];
    rep.finish()
}


/// replay helpers
pub fn replay_small(g: &Graph) -> Vec<(String, String)> {
    let mut acc = check_small(g, 4);
    if g.n == 4 {
        acc = acc.merge(check_perms4(g));
    }
    acc.violations.into_iter().map(|(k, (_, v))| (k, v.message)).collect()
}

pub fn replay_large(fam: &str, size: usize) -> Vec<(String, String)> {
    check_big(fam, size).violations.into_iter().map(|(k, (_, v))| (k, v.message)).collect()
}

pub fn replay_threshold() -> Vec<(String, String)> {
    check_threshold_unions().violations.into_iter().map(|(k, (_, v))| (k, v.message)).collect()
}
