//! C14: written frameworks and answers read back to the same objects.

use crate::checks::c12::{bfs_hook, Init, RefStore};
use crate::report::{Report, Tier, Violation};
use crustabri::aa::{AAFramework, Argument, ArgumentSet};
use crustabri::io::{AspartixReader, AspartixWriter, Iccma23Writer, InstanceReader, ResponseWriter};
use crustabri::utils::LabelType;
use serde_json::json;

/// hook run on every unique state of the store exploration: write, read back, compare
fn roundtrip(af: &AAFramework<String>, rf: &RefStore, labels: &[String]) -> Result<(), String> {
    let mut buf: Vec<u8> = vec![];
    AspartixWriter::default().write_framework(af, &mut buf).map_err(|e| format!("write_framework failed: {}", e))?;
    // expected content from the reference: live labels in id order, attack set
    let mut live: Vec<(usize, u8)> = rf.args.iter().map(|(&l, &id)| (id, l)).collect();
    live.sort();
    let exp_labels: Vec<String> = live.iter().map(|&(_, l)| labels[l as usize].clone()).collect();
    let text = String::from_utf8_lossy(&buf).to_string();
    let back = AspartixReader::default().read(&mut buf.as_slice()).map_err(|e| format!("written file is rejected by the reader: {} -- file: {:?}", e, text))?;
    let got_labels: Vec<String> = back.argument_set().iter().map(|a| a.label().clone()).collect();
    if got_labels != exp_labels {
        return Err(format!("read back arguments {:?}, expected {:?}", got_labels, exp_labels));
    }
    let mut got: Vec<(String, String)> = back.iter_attacks().map(|a| (a.attacker().label().clone(), a.attacked().label().clone())).collect();
    got.sort();
    let mut want: Vec<(String, String)> = rf.atts.iter().map(|&(a, b)| (labels[a as usize].clone(), labels[b as usize].clone())).collect();
    want.sort();
    if got != want {
        return Err(format!("read back attacks {:?}, expected {:?}", got, want));
    }
    Ok(())
}

fn ordered_selections(n: usize, k: usize) -> Vec<Vec<usize>> {
    let mut out = vec![vec![]];
    let mut cur: Vec<Vec<usize>> = vec![vec![]];
    for _ in 0..k {
        let mut next = vec![];
        for c in &cur {
            for a in 0..n {
                if !c.contains(&a) {
                    let mut d = c.clone();
                    d.push(a);
                    next.push(d);
                }
            }
        }
        out.extend(next.iter().cloned());
        cur = next;
    }
    out
}

fn check_answers<T: LabelType>(
    kind: &str,
    labels: &[T],
    make_big: &dyn Fn(usize) -> Vec<T>,
    writer: &dyn ResponseWriter<T>,
    render: &dyn Fn(&[String]) -> String,
    parse: &dyn Fn(&str) -> Option<Vec<String>>,
    n_checked: &mut u64,
    rep: &mut Report,
) {
    // frameworks: compact, and one with a removed argument in the middle (sparse ids)
    let mut afs: Vec<AAFramework<T>> = vec![];
    afs.push(AAFramework::new_with_argument_set(ArgumentSet::new_with_labels(labels)));
    let mut af2 = AAFramework::new_with_argument_set(ArgumentSet::new_with_labels(&labels[..1]));
    for l in &labels[1..] {
        af2.new_argument(l.clone());
        if l == &labels[1] {
            af2.remove_argument(l).unwrap();
            af2.new_argument(l.clone());
        }
    }
    afs.push(af2);
    for (fi, af) in afs.iter().enumerate() {
        let args: Vec<&Argument<T>> = af.argument_set().iter().collect();
        for sel in ordered_selections(args.len(), 3) {
            let ext: Vec<&Argument<T>> = sel.iter().map(|&i| args[i]).collect();
            let names: Vec<String> = ext.iter().map(|a| a.label().to_string()).collect();
            let mut buf = vec![];
            *n_checked += 1;
            let fail = |what: &str, msg: String, rep: &mut Report| {
                rep.add_violation(Violation {
                    property: "C14".into(),
                    key: format!("writer={};what={}", kind, what),
                    message: format!("{} writer, extension {:?} (framework variant {}): {}", kind, names, fi, msg),
                    case: json!({"engine": "writer", "writer": kind, "extension": names, "framework_variant": fi}),
                });
            };
            match writer.write_single_extension(&mut buf, &ext) {
                Err(e) => fail("error", format!("write_single_extension failed: {}", e), rep),
                Ok(()) => {
                    let text = String::from_utf8_lossy(&buf).to_string();
                    let want = render(&names);
                    if text != want {
                        fail("extension_bytes", format!("wrote {:?}, the answer grammar gives {:?}", text, want), rep);
                    } else if parse(&text).as_ref() != Some(&names) {
                        fail("extension_parse_back", format!("{:?} parses back to {:?}", text, parse(&text)), rep);
                    }
                }
            }
        }
    }
    // large extensions (buffers, separators at scale): the first k arguments of a 4100-argument framework
    {
        let big_labels: Vec<T> = make_big(4100);
        let af = AAFramework::new_with_argument_set(ArgumentSet::new_with_labels(&big_labels));
        let args: Vec<&Argument<T>> = af.argument_set().iter().collect();
        // sizes straddling every power of two (chunked writes), plus the sizes at which the output crosses 8 KiB
        let mut ks: Vec<usize> = vec![10, 100, 1000, 1365, 1366, 1400, 3000];
        for p in 4..=12u32 {
            ks.extend([(1usize << p) - 1, 1 << p, (1 << p) + 1]);
        }
        ks.sort();
        for k in ks {
            let ext: Vec<&Argument<T>> = args[..k].to_vec();
            let names: Vec<String> = ext.iter().map(|a| a.label().to_string()).collect();
            let mut buf = vec![];
            *n_checked += 1;
            let ok = writer.write_single_extension(&mut buf, &ext).is_ok();
            let text = String::from_utf8_lossy(&buf).to_string();
            if !ok || text != render(&names) || parse(&text).as_ref() != Some(&names) {
                let got = parse(&text).map(|v| v.len());
                rep.add_violation(Violation {
                    property: "C14".into(),
                    key: format!("writer={};what=large_extension", kind),
                    message: format!("{} writer, extension of {} arguments: output ({} bytes) is not the rendering of the answer grammar / reads back to {:?} labels", kind, k, text.len(), got),
                    case: json!({"engine": "writer", "writer": kind, "large_extension": k}),
                });
            }
        }
    }
    for (status, want) in [(true, "YES\n"), (false, "NO\n")] {
        let mut buf = vec![];
        *n_checked += 1;
        let r = writer.write_acceptance_status(&mut buf, status);
        if r.is_err() || buf != want.as_bytes() {
            rep.add_violation(Violation {
                property: "C14".into(),
                key: format!("writer={};what=status_bytes", kind),
                message: format!("{} writer, status {}: wrote {:?}, expected {:?}", kind, status, String::from_utf8_lossy(&buf), want),
                case: json!({"engine": "writer", "writer": kind, "status": status}),
            });
        }
    }
    let mut buf = vec![];
    *n_checked += 1;
    let r = writer.write_no_extension(&mut buf);
    if r.is_err() || buf != b"NO\n" {
        rep.add_violation(Violation {
            property: "C14".into(),
            key: format!("writer={};what=no_extension_bytes", kind),
            message: format!("{} writer, write_no_extension wrote {:?}", kind, String::from_utf8_lossy(&buf)),
            case: json!({"engine": "writer", "writer": kind, "no_extension": true}),
        });
    }
}

pub fn run(tier: Tier) -> i32 {
    let mut rep = Report::new("C14", tier);
    let thorough = tier == Tier::Thorough;
    let depth = if thorough { 8 } else { 7 };
    let universes: Vec<Vec<String>> = vec![
        vec!["a".into(), "_".into(), "b1".into()],
        vec!["arg".into(), "att".into(), "A_9".into()],
        vec!["x_".into(), "X".into()],
    ];
    for labels in &universes {
        for init in [Init::Empty, Init::DupLabels] {
            let d = if labels.len() == 2 { depth + 2 } else { depth };
            let r = bfs_hook("String", labels, init, d, Some(&roundtrip));
            rep.states += r.states;
            rep.transitions += r.transitions;
            rep.traces += r.states;
            rep.evaluations += r.states;
            rep.distinct_nontrivial += r.states;
            rep.extra.insert(
                format!("space:frameworks over labels {:?} from {} (store exploration of C12, depth {})", labels, init.name(), d),
                json!({"unique_states_written_and_read_back": r.states, "transitions": r.transitions}),
            );
            if let Some(s) = r.sample {
                rep.add_sample(s);
            }
            for (_, (n, mut v)) in r.violations {
                v.property = "C14".into();
                rep.n_violations += n - 1;
                rep.add_violation(v);
            }
        }
    }
    // answers
    let mut n_answers = 0u64;
    let slabels: Vec<String> = vec!["a".into(), "_".into(), "b1".into(), "A_9".into()];
    check_answers(
        "aspartix",
        &slabels,
        &|n| (0..n).map(|i| format!("arg{}", i)).collect(),
        &AspartixWriter::default(),
        &|names| format!("[{}]\n", names.join(",")),
        &|text| {
            let t = text.strip_suffix('\n')?.strip_prefix('[')?.strip_suffix(']')?;
            Some(if t.is_empty() { vec![] } else { t.split(',').map(|s| s.to_string()).collect() })
        },
        &mut n_answers,
        &mut rep,
    );
    let ulabels: Vec<usize> = vec![1, 2, 10, 100];
    check_answers(
        "iccma23",
        &ulabels,
        &|n| (1..=n).collect(),
        &Iccma23Writer::default(),
        &|names| format!("w{}\n", names.iter().map(|n| format!(" {}", n)).collect::<String>()),
        &|text| {
            let t = text.strip_suffix('\n')?.strip_prefix('w')?;
            if t.is_empty() {
                return Some(vec![]);
            }
            let t = t.strip_prefix(' ')?;
            Some(t.split(' ').map(|s| s.to_string()).collect())
        },
        &mut n_answers,
        &mut rep,
    );
    rep.evaluations += n_answers;
    rep.traces += n_answers;
    rep.extra.insert("answers".into(), json!({"extension_and_status_renderings_checked": n_answers, "extensions": "every ordered selection of <= 3 arguments (incl. the empty one) of a 4-argument framework, compact and with sparse ids, both writers"}));
    rep.add_sample(json!({"writer": "iccma23", "extension": ["10", "1", "100"], "bytes": "w 10 1 100\n"}));
    rep.rule = "(a) every unique concrete state of AAFramework<String> reached by the C12 exploration over three label universes of valid Aspartix identifiers is written with AspartixWriter and read back with AspartixReader: same labels in the same order, same attack set (only the round trip is demanded of the framework text); (b) every ordered selection of <=3 arguments through both ResponseWriters must produce exactly the bytes of the answer grammar and parse back to the same label sequence; (c) statuses and write_no_extension byte-exact; distinct_nontrivial = unique framework states round-tripped".into();
    rep.bounds = json!({"store_depth": depth, "extension_length": "<= 3"});
    rep.assumptions = vec!["the answer grammar of the property (w + space-separated labels; bracketed comma-separated list; YES / NO) is checked byte for byte; the framework text only by reading it back".into()];
    rep.finish()
}
