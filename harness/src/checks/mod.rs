pub mod static_checks;
pub mod c18;
pub mod c17;
pub mod c17_more;
pub mod dyn_checks;
pub mod c17_proc;
