pub mod static_checks;
