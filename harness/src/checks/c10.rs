//! C10: the CNF produced by every encoder characterises exactly the intended argument sets.
//! The CNF is captured by a recording SatSolver and ALL its models are enumerated by the harness
//! all-SAT procedure.

use crate::choicesat::{catch, fabricate};
use crate::dpll::{self, Clause};
use crate::refmodel::{mask_to_vec, Graph, Ref};
use crate::report::{Report, Tier, Violation};
use crate::staticq::{make_encoder, Enc};
use crate::universe::{build_usize, iso_representatives_sparse, threshold_family, universe_upto, Presentation};
use crustabri::encodings::{ConstraintsEncoder, DefaultStableConstraintsEncoder};
use crustabri::sat::{Literal, SatSolver, SolvingListener, SolvingResult};
use rayon::prelude::*;
use serde_json::json;
use std::collections::BTreeMap;

#[derive(Default)]
pub struct RecordingSat {
    pub clauses: Vec<Clause>,
    pub reserved: usize,
    pub max_var: usize,
}

impl SatSolver for RecordingSat {
    fn add_clause(&mut self, cl: Vec<Literal>) {
        let c: Clause = cl.iter().map(|l| isize::from(*l) as i32).collect();
        for &l in &c {
            self.max_var = self.max_var.max(l.unsigned_abs() as usize);
        }
        self.clauses.push(c);
    }
    fn solve(&mut self) -> SolvingResult {
        panic!("harness: encoders must not solve")
    }
    fn solve_under_assumptions(&mut self, _a: &[Literal]) -> SolvingResult {
        panic!("harness: encoders must not solve")
    }
    fn n_vars(&self) -> usize {
        self.max_var.max(self.reserved)
    }
    fn add_listener(&mut self, _l: Box<dyn SolvingListener>) {}
    fn reserve(&mut self, n: usize) {
        self.reserved = self.reserved.max(n);
    }
}

#[derive(Clone, Copy, Debug, PartialEq, Eq, Hash, PartialOrd, Ord)]
pub enum EncId {
    Menu(Enc),
    Stable,
    /// encodings::new_default_complete_constraints_encoder()
    FactoryComplete,
    /// encodings::new_default_conflict_freeness_encoder()
    FactoryConflictFreeness,
}

impl EncId {
    pub fn name(self) -> String {
        match self {
            EncId::Menu(e) => e.name().to_string(),
            EncId::Stable => "default_stable".into(),
            EncId::FactoryComplete => "new_default_complete_constraints_encoder()".into(),
            EncId::FactoryConflictFreeness => "new_default_conflict_freeness_encoder()".into(),
        }
    }
}

pub const ALL_ENCS: [EncId; 9] = [
    EncId::FactoryComplete,
    EncId::FactoryConflictFreeness,
    EncId::Menu(Enc::AuxCF),
    EncId::Menu(Enc::AuxAdm),
    EncId::Menu(Enc::AuxCO),
    EncId::Menu(Enc::ExpCF),
    EncId::Menu(Enc::ExpCO),
    EncId::Menu(Enc::Hybrid),
    EncId::Stable,
];

pub fn make(e: EncId) -> Box<dyn ConstraintsEncoder<usize>> {
    match e {
        EncId::Menu(m) => make_encoder::<usize>(m).unwrap(),
        EncId::Stable => Box::<DefaultStableConstraintsEncoder>::default(),
        EncId::FactoryComplete => crustabri::encodings::new_default_complete_constraints_encoder::<usize>(),
        EncId::FactoryConflictFreeness => crustabri::encodings::new_default_conflict_freeness_encoder::<usize>(),
    }
}

fn family(r: &Ref, e: EncId) -> Vec<u32> {
    match e {
        EncId::Menu(Enc::AuxCF) | EncId::Menu(Enc::ExpCF) | EncId::FactoryConflictFreeness => r.all_conflict_free(),
        EncId::Menu(Enc::AuxAdm) => r.all_admissible(),
        EncId::Stable => r.all_stable(),
        _ => r.all_complete(),
    }
}

pub struct Outcome {
    pub models: usize,
    pub n_vars: usize,
    pub aux_side: bool,
}

/// check one (graph, encoder object, range flag); Err = (what, message); Ok(None) = not implemented
pub fn check_one(g: &Graph, e: EncId, enc: &dyn ConstraintsEncoder<usize>, range: bool) -> Result<Option<Outcome>, (String, String)> {
    check_one_pres(g, e, enc, range, 0)
}

/// dup: 0 = compact (every attack once), 1 = through the ICCMA reader with every attack line twice,
/// 2 = through the ICCMA reader with the last attack line three times (readers keep repetitions)
pub fn check_one_pres(g: &Graph, e: EncId, enc: &dyn ConstraintsEncoder<usize>, range: bool, dup: u8) -> Result<Option<Outcome>, (String, String)> {
    let b = match dup {
        0 => build_usize(g, Presentation::Compact),
        1 => build_usize(g, Presentation::Dup),
        _ => {
            use crustabri::io::InstanceReader;
            let mut text = crate::universe::iccma_text(g);
            if let Some(&(a, t)) = g.att.last() {
                text.push_str(&format!("{} {}\n{} {}\n", a + 1, t + 1, a + 1, t + 1));
            }
            let af = crustabri::io::Iccma23Reader::default().read(&mut text.as_bytes()).expect("harness: ICCMA text rejected");
            crate::universe::Built { af, labels: (1..=g.n).collect() }
        }
    };
    let n = g.n;
    let r = Ref::new(g);
    let mut rec = RecordingSat::default();
    let enc_res = catch(|| {
        if range {
            enc.encode_constraints_and_range(&b.af, &mut rec)
        } else {
            enc.encode_constraints(&b.af, &mut rec)
        }
    });
    if let Err(p) = enc_res {
        if p.contains("not implemented") {
            return Ok(None);
        }
        return Err(("panic".into(), format!("encoding panicked: {}", p)));
    }
    // variable layout
    let arg_vars: Vec<i32> = (0..n)
        .map(|i| {
            let a = b.af.argument_set().get_argument(&b.labels[i]).unwrap();
            isize::from(enc.arg_to_lit(a)) as i32
        })
        .collect();
    for i in 0..n {
        if arg_vars[i] <= 0 {
            return Err(("layout".into(), format!("arg_to_lit of argument {} is the negative literal {}", i, arg_vars[i])));
        }
        for j in 0..i {
            if arg_vars[i].abs() == arg_vars[j].abs() {
                return Err(("layout".into(), format!("arguments {} and {} are mapped to the same variable {}", j, i, arg_vars[i].abs())));
            }
        }
    }
    let range_vars: Vec<i32> = if range {
        let first = match catch(|| enc.first_range_var(n)) {
            Ok(f) => f,
            Err(p) => return Err(("panic".into(), format!("first_range_var panicked: {}", p))),
        };
        // range variable of the argument with id i is first + i (ids are compact: 0..n)
        (0..n)
            .map(|i| {
                let id = b.af.argument_set().get_argument(&b.labels[i]).unwrap().id();
                (first + id) as i32
            })
            .collect()
    } else {
        vec![]
    };
    for rv in &range_vars {
        if arg_vars.contains(rv) {
            return Err(("layout".into(), format!("range variable {} collides with an argument variable", rv)));
        }
    }
    let n_vars = rec.n_vars();
    for v in arg_vars.iter().chain(range_vars.iter()) {
        if *v as usize > n_vars && n > 0 {
            // a variable nobody declared: the solver would report nothing for it
            return Err(("layout".into(), format!("variable {} is beyond the {} variables declared to the solver", v, n_vars)));
        }
    }
    // which variables are "other" (auxiliary)
    let occ = dpll::occurring_vars(&rec.clauses, &[]);
    let aux: Vec<u32> = occ.iter().cloned().filter(|v| !arg_vars.contains(&(*v as i32)) && !range_vars.contains(&(*v as i32))).collect();
    let vars: Vec<u32> = (1..=n_vars as u32).collect();
    let (models, capped) = dpll::all_models(&rec.clauses, &[], &vars, 1 << 22);
    if capped {
        panic!("harness: model enumeration cap hit on {}", g.describe());
    }
    let fam = family(&r, e);
    let mut seen: BTreeMap<u32, Vec<u32>> = BTreeMap::new(); // set -> range masks seen
    for m in &models {
        let val = |v: i32| m[v as usize - 1];
        let mut s = 0u32;
        for i in 0..n {
            if val(arg_vars[i]) {
                s |= 1 << i;
            }
        }
        if !fam.contains(&s) {
            return Err(("extra_model".into(), format!("the CNF has a model whose argument set {:?} is not in the intended family ({} sets)", mask_to_vec(s), fam.len())));
        }
        let mut rg = 0u32;
        if range {
            for i in 0..n {
                if val(range_vars[i]) {
                    rg |= 1 << i;
                }
            }
            if rg & !r.range(s) != 0 {
                return Err(("range_unsound".into(), format!("model with set {:?}: range variables true for {:?} but the range of the set is {:?}", mask_to_vec(s), mask_to_vec(rg), mask_to_vec(r.range(s)))));
            }
        }
        seen.entry(s).or_default().push(rg);
        // (d) assignment_to_extension agrees with the projection
        let values: Vec<Option<bool>> = m.iter().map(|b| Some(*b)).collect();
        let asg = fabricate(&values);
        let ext = match catch(|| enc.assignment_to_extension(&asg, &b.af).iter().map(|a| b.index_of(a.label()).unwrap()).collect::<Vec<usize>>()) {
            Ok(x) => x,
            Err(p) => return Err(("panic".into(), format!("assignment_to_extension panicked: {}", p))),
        };
        let mut es = 0u32;
        for i in &ext {
            if es >> i & 1 == 1 {
                return Err(("assignment_to_extension".into(), format!("assignment_to_extension lists argument {} twice", i)));
            }
            es |= 1 << i;
        }
        if es != s {
            return Err(("assignment_to_extension".into(), format!("assignment_to_extension gives {:?}, the argument literals give {:?}", mask_to_vec(es), mask_to_vec(s))));
        }
    }
    for s in &fam {
        match seen.get(s) {
            None => return Err(("missing_model".into(), format!("the intended set {:?} has no model in the CNF", mask_to_vec(*s)))),
            Some(rgs) => {
                if range && !rgs.contains(&r.range(*s)) {
                    return Err(("range_incomplete".into(), format!("set {:?}: no model whose range variables equal its range {:?}", mask_to_vec(*s), mask_to_vec(r.range(*s)))));
                }
            }
        }
    }
    Ok(Some(Outcome { models: models.len(), n_vars, aux_side: !aux.is_empty() }))
}

#[derive(Default)]
struct Acc {
    encodings: u64,
    not_implemented: u64,
    models: u64,
    nontrivial: u64,
    hybrid_aux: u64,
    hybrid_exp: u64,
    max_vars: usize,
    violations: BTreeMap<String, (u64, Violation)>,
    sample: Option<serde_json::Value>,
}

impl Acc {
    fn merge(mut self, o: Acc) -> Acc {
        self.encodings += o.encodings;
        self.not_implemented += o.not_implemented;
        self.models += o.models;
        self.nontrivial += o.nontrivial;
        self.hybrid_aux += o.hybrid_aux;
        self.hybrid_exp += o.hybrid_exp;
        self.max_vars = self.max_vars.max(o.max_vars);
        for (k, (n, v)) in o.violations {
            let e = self.violations.entry(k).or_insert((0, v));
            e.0 += n;
        }
        if self.sample.is_none() {
            self.sample = o.sample;
        }
        self
    }
}

pub fn run(tier: Tier) -> i32 {
    let mut rep = Report::new("C10", tier);
    let thorough = tier == Tier::Thorough;
    let mut graphs: Vec<(String, Graph)> = universe_upto(4).into_iter().map(|g| (format!("U:{}#{}", g.n, g.code()), g)).collect();
    let mut space = "U(<=4)".to_string();
    {
        let k = if thorough { 8 } else { 5 };
        let reps = iso_representatives_sparse(5, k);
        space.push_str(&format!(" + {} iso-classes of 5-argument graphs with <={} attacks", reps.len(), k));
        graphs.extend(reps.into_iter().map(|g| (format!("U5iso#{}", g.code()), g)));
    }
    {
        let k = if thorough { 6 } else { 5 };
        let reps = crate::universe::iso_classes_augment(6, k);
        space.push_str(&format!(" + {} iso-classes of 6-argument graphs with <={} attacks", reps.len(), k));
        graphs.extend(reps.into_iter().map(|g| (format!("U6iso#{}", g.code()), g)));
    }
    let tf = threshold_family();
    space.push_str(&format!(" + {} members of the hybrid-threshold family", tf.len()));
    graphs.extend(tf.into_iter().map(|(n, g)| (format!("S:{}", n), g)));
    // chunks share one encoder object per encoder kind, so that objects are re-used across
    // different frameworks (state reset, clause (e) of the design)
    let chunks: Vec<&[(String, Graph)]> = graphs.chunks(8).collect();
    let acc = chunks
        .par_iter()
        .with_max_len(1)
        .map(|chunk| {
            let mut acc = Acc::default();
            let encs: Vec<(EncId, Box<dyn ConstraintsEncoder<usize>>)> = ALL_ENCS.iter().map(|&e| (e, make(e))).collect();
            for (name, g) in chunk.iter() {
                for (e, enc) in &encs {
                    // the large threshold graphs have far too many conflict-free / admissible sets;
                    // they exist for the complete-semantics encoders (hybrid switch)
                    if g.n > 6 && matches!(e, EncId::Menu(Enc::AuxCF) | EncId::Menu(Enc::ExpCF) | EncId::Menu(Enc::AuxAdm) | EncId::FactoryConflictFreeness | EncId::FactoryComplete) {
                        continue;
                    }
                    for (range, dup) in [(false, 0u8), (true, 0), (false, 1), (true, 2), (false, 2), (true, 1)] {
                        if dup > 0 && (g.att.is_empty() || g.n > 4 || (g.n == 4 && g.att.len() > 5)) {
                            continue;
                        }
                        match check_one_pres(g, *e, enc.as_ref(), range, dup) {
                            Ok(None) => acc.not_implemented += 1,
                            Ok(Some(o)) => {
                                acc.encodings += 1;
                                acc.models += o.models as u64;
                                acc.max_vars = acc.max_vars.max(o.n_vars);
                                if o.models >= 2 {
                                    acc.nontrivial += 1;
                                }
                                if *e == EncId::Menu(Enc::Hybrid) {
                                    if o.aux_side {
                                        acc.hybrid_aux += 1;
                                    } else {
                                        acc.hybrid_exp += 1;
                                    }
                                }
                                if acc.sample.is_none() && g.n >= 3 && o.models >= 3 {
                                    acc.sample = Some(json!({"graph": g.describe(), "encoder": e.name(), "range": range, "variables": o.n_vars, "models": o.models}));
                                }
                            }
                            Err((what, msg)) => {
                                let key = format!("encoder={};range={};repeated_attacks={};what={}", e.name(), range, dup, what);
                                let v = Violation {
                                    property: "C10".into(),
                                    key: key.clone(),
                                    message: format!("{} ({}) encoder {} range={} repeated-attack presentation {}: {}", g.describe(), name, e.name(), range, dup, msg),
                                    case: json!({"engine": "encoding", "graph": g.to_json(), "encoder": e.name(), "range": range, "dup": dup}),
                                };
                                let en = acc.violations.entry(key).or_insert((0, v));
                                en.0 += 1;
                            }
                        }
                    }
                }
            }
            acc
        })
        .reduce(Acc::default, Acc::merge);
    rep.states = acc.encodings;
    rep.transitions = acc.models.max(1);
    rep.traces = acc.encodings;
    rep.evaluations = acc.models;
    rep.distinct_nontrivial = acc.nontrivial;
    rep.extra.insert(
        "space".into(),
        json!({"description": space, "graphs": graphs.len(), "cnfs_validated": acc.encodings, "models_enumerated": acc.models, "range_not_implemented": acc.not_implemented,
               "max_variables_in_a_cnf": acc.max_vars, "hybrid_cnfs_using_auxiliary_variables": acc.hybrid_aux, "hybrid_cnfs_without_auxiliary_variables": acc.hybrid_exp}),
    );
    if acc.hybrid_aux == 0 || acc.hybrid_exp == 0 {
        rep.extra.insert("note".into(), json!("the hybrid encoder did not take both sides of its switch on the threshold family in this run (its threshold may have moved): the hybrid cells are then validated on one side only"));
    }
    if let Some(s) = acc.sample {
        rep.add_sample(s);
    }
    for (_, (n, v)) in acc.violations {
        rep.n_violations += n - 1;
        rep.add_violation(v);
    }
    rep.rule = "for every graph (compact ids) and every encoder x {plain, with range}: the CNF is captured by a recording solver and ALL total models over variables 1..n_vars are enumerated; states = CNFs validated, transitions = models examined; both inclusions between the projected model set and the reference family, range soundness/completeness, variable layout, assignment_to_extension on every model; encoder objects are re-used across frameworks; distinct_nontrivial = CNFs with >= 2 models".into();
    rep.bounds = json!({"graphs": space});
    rep.assumptions = vec!["harness all-SAT (self-checked) enumerates the models; reference families by subset enumeration".into()];
    rep.finish()
}
