//! C16 part 3: volume and interleaving of the exchange with the external solver.
//!  - models/extsat.pml explored by spin (all interleavings of parent / writer thread / child over
//!    two bounded pipes, every scenario of the menu), both parent orders;
//!  - conformance: the scenario menu replayed on the real ExternalSatSolver against the stand-in
//!    program under a watchdog; outcome table compared with what the model of the required order
//!    (drain, then reap) guarantees; syscall order of the parent checked with strace.

use crate::checks::c15::fake_sat;
use crate::checks::c16::scratch_dir;
use crate::choicesat::catch;
use crate::report::{Report, Tier, Violation};
use crustabri::sat::{ExternalSatSolver, Literal, SatSolver, SolvingResult};
use rayon::prelude::*;
use serde_json::{json, Value};
use std::process::{Command, Stdio};
use std::time::{Duration, Instant};

pub const BEHAVS: [&str; 6] = ["readall", "interleave", "writefirst", "noread", "partial-exit", "exit-at-once"];

/// body of `cvx c16-scenario <behav> <pad> <big>`: one exchange on the real code
pub fn scenario_main(behav: &str, pad: usize, big: bool) -> i32 {
    scenario_main_err(behav, pad, big, 0)
}

pub fn scenario_main_err(behav: &str, pad: usize, big: bool, errpad: usize) -> i32 {
    let r = catch(|| {
        let mut opts = vec![format!("behav={}", behav), format!("pad={}", pad)];
        if errpad > 0 {
            opts.push(format!("errpad={}", errpad));
        }
        let mut s = ExternalSatSolver::new(fake_sat().to_string(), opts);
        s.add_clause(vec![Literal::from(1isize)]);
        s.add_clause(vec![Literal::from(-1isize)]);
        if big {
            // an instance larger than the stdin pipe: ~13000 clauses of 6 bytes
            for _ in 0..13000 {
                s.add_clause(vec![Literal::from(1isize), Literal::from(2isize)]);
            }
        }
        match s.solve() {
            SolvingResult::Satisfiable(_) => "sat",
            SolvingResult::Unsatisfiable => "unsat",
            SolvingResult::Unknown => "unknown",
        }
    });
    match r {
        Ok(k) => println!("RESULT {}", k),
        Err(_) => println!("RESULT panic"),
    }
    0
}

pub fn run_with_watchdog(mut cmd: Command, timeout: Duration) -> (bool, String, f64) {
    use std::os::unix::process::CommandExt;
    cmd.stdout(Stdio::piped()).stderr(Stdio::null()).stdin(Stdio::null()).process_group(0);
    let start = Instant::now();
    let mut child = match cmd.spawn() {
        Ok(c) => c,
        Err(e) => return (true, format!("spawn failed: {}", e), 0.0),
    };
    let pid = child.id() as i32;
    loop {
        match child.try_wait() {
            Ok(Some(_)) => break,
            Ok(None) => {
                if start.elapsed() > timeout {
                    unsafe {
                        libc::kill(-pid, libc::SIGKILL);
                    }
                    let _ = child.wait();
                    return (false, "hang".into(), start.elapsed().as_secs_f64());
                }
                std::thread::sleep(Duration::from_millis(5));
            }
            Err(e) => return (true, format!("wait failed: {}", e), 0.0),
        }
    }
    let mut out = String::new();
    if let Some(mut so) = child.stdout.take() {
        use std::io::Read;
        let _ = so.read_to_string(&mut out);
    }
    unsafe {
        libc::kill(-pid, libc::SIGKILL);
    }
    let kind = out.lines().find_map(|l| l.strip_prefix("RESULT ")).unwrap_or("no-result").to_string();
    (true, kind, start.elapsed().as_secs_f64())
}

struct SpinResult {
    errors: u64,
    states: u64,
    transitions: u64,
    deadlock_scenarios: Vec<(u64, u64, u64)>,
}

fn run_spin(variant: u8, capin: u8, capout: u8, want_trails: bool) -> Result<SpinResult, String> {
    let dir = scratch_dir(&format!("spin_v{}_{}_{}", variant, capin, capout));
    for f in std::fs::read_dir(&dir).map_err(|e| e.to_string())?.flatten() {
        let _ = std::fs::remove_file(f.path());
    }
    let model_path = format!("{}/models/extsat.pml", crate::report::verif_dir());
    let model = model_path.as_str();
    let defs = [format!("-DVARIANT={}", variant), format!("-DCAPIN={}", capin), format!("-DCAPOUT={}", capout)];
    let o = Command::new("spin").arg("-a").args(&defs).arg(model).current_dir(&dir).output().map_err(|e| format!("spin: {}", e))?;
    if !o.status.success() || !dir.join("pan.c").exists() {
        return Err(format!("spin -a failed: {}", String::from_utf8_lossy(&o.stdout)));
    }
    let o = Command::new("gcc").args(["-O1", "-DSAFETY", "-w", "-o", "pan", "pan.c"]).current_dir(&dir).output().map_err(|e| format!("gcc: {}", e))?;
    if !o.status.success() {
        return Err(format!("gcc failed: {}", String::from_utf8_lossy(&o.stderr)));
    }
    let mut cmd = Command::new(dir.join("pan"));
    cmd.current_dir(&dir);
    if want_trails {
        cmd.args(["-e", "-c0"]);
    }
    let o = cmd.output().map_err(|e| format!("pan: {}", e))?;
    let text = String::from_utf8_lossy(&o.stdout).to_string();
    let num_before = |needle: &str| -> Option<u64> {
        text.lines().find(|l| l.contains(needle)).and_then(|l| l.trim().split_whitespace().next().and_then(|w| w.parse().ok()))
    };
    let errors = text.lines().find_map(|l| l.split("errors:").nth(1).and_then(|x| x.trim().parse::<u64>().ok())).ok_or_else(|| format!("cannot parse pan output: {}", text))?;
    let states = num_before("states, stored").ok_or("no states line")?;
    let transitions = num_before("transitions (").ok_or("no transitions line")?;
    if text.contains("search was truncated") || text.contains("max search depth too small") {
        return Err("pan search truncated".into());
    }
    let mut scen = std::collections::BTreeSet::new();
    if want_trails {
        for f in std::fs::read_dir(&dir).map_err(|e| e.to_string())?.flatten() {
            let p = f.path();
            if p.extension().map(|e| e == "trail").unwrap_or(false) {
                let o = Command::new("spin").arg("-k").arg(&p).arg("-g").args(&defs).arg(model).current_dir(&dir).output().map_err(|e| format!("spin -k: {}", e))?;
                let t = String::from_utf8_lossy(&o.stdout);
                let val = |name: &str| t.lines().rev().find_map(|l| l.trim().strip_prefix(&format!("{} = ", name)).and_then(|x| x.trim().parse::<u64>().ok()));
                if let (Some(b), Some(i), Some(r)) = (val("behav"), val("isize"), val("rsize")) {
                    scen.insert((b, i, r));
                }
            }
        }
    }
    Ok(SpinResult { errors, states, transitions, deadlock_scenarios: scen.into_iter().collect() })
}

/// expected verdict kinds of a scenario under the required order
pub fn expected_kinds(behav: &str) -> &'static [&'static str] {
    match behav {
        "readall" | "interleave" | "writefirst" | "noread" => &["unsat"],
        // no status line reaches the parent: undecided, or abort
        _ => &["unknown", "panic"],
    }
}

fn strace_order_ok(behav: &str, pad: usize, big: bool, idx: usize) -> Result<bool, String> {
    let dir = scratch_dir("strace");
    let out = dir.join(format!("trace_{}.txt", idx));
    let _ = std::fs::remove_file(&out);
    let exe = std::env::current_exe().map_err(|e| e.to_string())?;
    let mut cmd = Command::new("strace");
    cmd.args(["-f", "-o"]).arg(&out).args(["-e", "trace=read,wait4,waitid,execve"]).arg(&exe).args(["c16-scenario", behav, &pad.to_string(), if big { "1" } else { "0" }]);
    let (done, _kind, _) = run_with_watchdog(cmd, Duration::from_secs(20));
    if !done {
        return Ok(false);
    }
    let text = std::fs::read_to_string(&out).map_err(|e| format!("no strace output: {}", e))?;
    // parent = pid of the first line; child = the pid that execve's fake_sat
    let parent = text.lines().next().and_then(|l| l.split_whitespace().next()).ok_or("empty trace")?.to_string();
    let child = text
        .lines()
        .find(|l| l.contains("execve(") && l.contains("fake_sat"))
        .and_then(|l| l.split_whitespace().next())
        .ok_or("fake_sat execve not found in trace")?
        .to_string();
    // position of the parent's wait for the child returning, and of the parent's EOF read
    let mut wait_done: Option<usize> = None;
    let mut eof_read: Option<usize> = None;
    let mut data_read_after_wait = false;
    for (i, l) in text.lines().enumerate() {
        if !l.starts_with(&parent) {
            continue;
        }
        let is_wait_ret = (l.contains("wait4(") || l.contains("waitid(") || l.contains("wait4 resumed") || l.contains("waitid resumed")) && !l.contains("unfinished") && (l.contains(&format!("= {}", child)) || l.contains("= 0"));
        if is_wait_ret && wait_done.is_none() {
            wait_done = Some(i);
        }
        if l.contains("read(") && !l.contains("unfinished") {
            // reads of the reply: data beginning with "c " / "s " or EOF
            let is_reply_data = l.contains("\"c ") || l.contains("\"s ") || l.contains("\"c\\n");
            if l.trim_end().ends_with("= 0") && eof_read.is_none() && wait_done.is_none() {
                eof_read = Some(i);
            }
            if is_reply_data && wait_done.is_some() {
                data_read_after_wait = true;
            }
        }
    }
    let _ = std::fs::remove_file(&out);
    match wait_done {
        None => Err("no wait on the child found in the parent's trace".into()),
        Some(_) => Ok(!data_read_after_wait),
    }
}

pub fn run_part3(rep: &mut Report, tier: Tier) {
    let thorough = tier == Tier::Thorough;
    // ---- model exploration
    let caps: Vec<(u8, u8)> = if thorough { vec![(1, 1), (1, 2), (2, 1), (2, 2), (3, 3)] } else { vec![(1, 1), (2, 2)] };
    let mut model_info = vec![];
    for &(ci, co) in &caps {
        match run_spin(1, ci, co, false) {
            Ok(r) => {
                rep.states += r.states;
                rep.transitions += r.transitions;
                model_info.push(json!({"variant": "drain-then-reap (required order)", "capin": ci, "capout": co, "states": r.states, "transitions": r.transitions, "errors": r.errors}));
                if r.errors != 0 {
                    rep.machinery_errors.push(format!("the Promela model of the required order has {} errors for capacities ({},{}): the model itself is wrong", r.errors, ci, co));
                }
            }
            Err(e) => rep.machinery_errors.push(format!("spin (variant 1, {} {}): {}", ci, co, e)),
        }
        match run_spin(0, ci, co, true) {
            Ok(r) => {
                rep.states += r.states;
                rep.transitions += r.transitions;
                // the model of the pre-fix order must deadlock exactly when the reply exceeds the pipe
                let bad: Vec<&(u64, u64, u64)> = r.deadlock_scenarios.iter().filter(|(b, _, rs)| !(*rs > co as u64 && *b <= 4)).collect();
                model_info.push(json!({"variant": "reap-then-drain (order before the fix)", "capin": ci, "capout": co, "states": r.states, "transitions": r.transitions, "error_trails": r.errors,
                    "deadlocking_scenarios(behav,isize,rsize)": r.deadlock_scenarios, "all_have_reply_larger_than_capacity": bad.is_empty()}));
                if r.errors == 0 {
                    rep.machinery_errors.push("the Promela model of the reap-then-drain order shows no deadlock: the model does not discriminate".into());
                }
            }
            Err(e) => rep.machinery_errors.push(format!("spin (variant 0, {} {}): {}", ci, co, e)),
        }
    }
    rep.extra.insert("part3:model (spin)".into(), json!(model_info));

    // ---- conformance grid on the real code
    let exe = match std::env::current_exe() {
        Ok(e) => e,
        Err(e) => {
            rep.machinery_errors.push(format!("current_exe: {}", e));
            return;
        }
    };
    // pipe capacity as seen by the child
    let capfile = scratch_dir("c16cap").join("cap.txt");
    let _ = std::fs::remove_file(&capfile);
    let _ = catch(|| {
        let mut s = ExternalSatSolver::new(fake_sat().to_string(), vec![format!("capout={}", capfile.display())]);
        s.add_clause(vec![Literal::from(1isize)]);
        let _ = s.solve();
    });
    let cap: usize = std::fs::read_to_string(&capfile).ok().and_then(|t| t.split_whitespace().next().and_then(|x| x.parse().ok())).unwrap_or(65536);
    let sizes = [0usize, 1, cap - 1, cap, cap + 1, 3 * cap];
    let mut scenarios: Vec<(usize, &str, usize, bool)> = vec![];
    for b in BEHAVS {
        for &s in &sizes {
            for big in [false, true] {
                scenarios.push((scenarios.len(), b, s, big));
            }
        }
    }
    // the third stream: the same exchanges with a child that first writes up to 3 pipe capacities of
    // diagnostics to its standard error (not part of the model: the outcome must simply not change)
    let err_scenarios: Vec<(&str, usize, bool, usize)> = ["readall", "writefirst"]
        .into_iter()
        .flat_map(|b| [0usize, cap + 1].into_iter().flat_map(move |s| [false, true].into_iter().flat_map(move |big| [cap, cap + 1, 3 * cap].into_iter().map(move |e| (b, s, big, e)))))
        .collect();
    let err_results: Vec<(&str, usize, bool, usize, bool, String)> = err_scenarios
        .par_iter()
        .map(|&(b, s, big, e)| {
            let mut cmd = Command::new(&exe);
            cmd.args(["c16-scenario", b, &s.to_string(), if big { "1" } else { "0" }, &e.to_string()]);
            let (done, kind, _) = run_with_watchdog(cmd, Duration::from_secs(10));
            (b, s, big, e, done, kind)
        })
        .collect();
    let mut n_err_ok = 0u64;
    for (b, s, big, e, done, kind) in &err_results {
        let exp = expected_kinds(b);
        if *done && exp.contains(&kind.as_str()) {
            n_err_ok += 1;
        } else {
            rep.add_violation(Violation {
                property: "C16".into(),
                key: format!("part=exchange;child={};stderr=flood;what={}", b, if !*done { "hang" } else { "unexpected_result" }),
                message: format!("exchange with a child that behaves '{}', writes {} bytes to its standard error first and replies {} bytes (pipe capacity {}), instance {} the stdin pipe: {} (expected {:?})", b, e, s, cap, if *big { "larger than" } else { "smaller than" }, if !*done { "the call did not return within 10 s".to_string() } else { format!("returned {}", kind) }, exp),
                case: json!({"engine": "exchange", "child": b, "reply_bytes": s, "big_instance": big, "stderr_bytes": e}),
            });
        }
    }
    rep.traces += err_results.len() as u64;
    rep.evaluations += err_results.len() as u64;
    rep.extra.insert("part3:conformance grid, standard error flooded first".into(), json!({"scenarios": err_results.len(), "scenarios_as_expected": n_err_ok, "stderr_bytes": [cap, cap + 1, 3 * cap]}));
    let results: Vec<(usize, &str, usize, bool, bool, String, f64)> = scenarios
        .par_iter()
        .map(|&(i, b, s, big)| {
            let mut cmd = Command::new(&exe);
            cmd.args(["c16-scenario", b, &s.to_string(), if big { "1" } else { "0" }]);
            let (done, kind, secs) = run_with_watchdog(cmd, Duration::from_secs(10));
            (i, b, s, big, done, kind, secs)
        })
        .collect();
    let mut table = vec![];
    let mut n_ok = 0u64;
    for (_i, b, s, big, done, kind, secs) in &results {
        let exp = expected_kinds(b);
        let ok = *done && exp.contains(&kind.as_str());
        table.push(json!({"child": b, "reply_bytes": s, "instance_larger_than_pipe": big, "terminated": done, "result": kind, "seconds": (secs * 1000.0).round() / 1000.0, "as_model_predicts": ok}));
        if ok {
            n_ok += 1;
        } else {
            let what = if !*done { "hang" } else { "unexpected_result" };
            rep.add_violation(Violation {
                property: "C16".into(),
                key: format!("part=exchange;child={};what={}", b, what),
                message: format!(
                    "exchange with a child that behaves '{}' and replies {} bytes (pipe capacity {}), instance {} the stdin pipe: {} (the model of the drain-then-reap order terminates with {:?})",
                    b, s, cap, if *big { "larger than" } else { "smaller than" }, if !*done { "the call did not return within 10 s".to_string() } else { format!("returned {}", kind) }, exp
                ),
                case: json!({"engine": "exchange", "child": b, "reply_bytes": s, "big_instance": big}),
            });
        }
    }
    rep.traces += results.len() as u64;
    rep.evaluations += results.len() as u64;
    rep.distinct_nontrivial += n_ok;
    rep.extra.insert("part3:conformance grid (real ExternalSatSolver vs stand-in program)".into(), json!({"pipe_capacity_bytes": cap, "scenarios": results.len(), "scenarios_as_predicted": n_ok, "table": table}));
    // ---- syscall order on a subset (all in thorough)
    let subset: Vec<(usize, &str, usize, bool)> = scenarios.iter().cloned().filter(|(_, b, s, big)| thorough || ((*b == "readall" || *b == "writefirst") && (*s == cap + 1 || *s == 1) && !*big)).collect();
    let orders: Vec<(usize, Result<bool, String>)> = subset.par_iter().map(|&(i, b, s, big)| (i, strace_order_ok(b, s, big, i))).collect();
    let mut n_checked = 0u64;
    let mut notes = vec![];
    let mut order_differs: Vec<String> = vec![];
    for (i, r) in orders {
        let (_, b, s, big) = scenarios[i];
        match r {
            Ok(true) => n_checked += 1,
            Ok(false) => order_differs.push(format!("child '{}', {} bytes, big instance {}", b, s, big)),
            Err(e) => notes.push(format!("scenario {}: {}", i, e)),
        }
    }
    rep.traces += n_checked;
    rep.extra.insert("part3:syscall order validated with strace".into(), json!({"scenarios_traced": subset.len(), "order_as_in_model_variant_1 (drain to EOF, then reap)": n_checked, "other_order (informational: a design that drains concurrently is also deadlock-free; the verdict comes from the outcome table)": order_differs, "unparsable": notes}));
}
