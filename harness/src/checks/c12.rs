//! C12: the framework store is a faithful set model under any update history.
//! Stateful BFS over operation histories with deduplication on the full concrete state
//! (Debug rendering, hash map entries sorted); after every transition everything observable is
//! compared with a plain set-based reference.

use crate::choicesat::catch;
use crate::refmodel::{Graph, Ref};
use crate::report::{Report, Tier, Violation};
use crustabri::aa::{AAFramework, ArgumentSet};
use crustabri::utils::LabelType;
use rayon::prelude::*;
use serde_json::{json, Value};
use std::collections::{BTreeMap, BTreeSet, HashSet};

#[derive(Clone, Copy, Debug, PartialEq, Eq, Hash, PartialOrd, Ord)]
pub enum SOp {
    NewArg(u8),
    RemArg(u8),
    NewAtt(u8, u8),
    RemAtt(u8, u8),
}

impl SOp {
    pub fn short(&self) -> String {
        match *self {
            SOp::NewArg(a) => format!("+{}", a),
            SOp::RemArg(a) => format!("-{}", a),
            SOp::NewAtt(a, b) => format!("+{}>{}", a, b),
            SOp::RemAtt(a, b) => format!("-{}>{}", a, b),
        }
    }
    pub fn to_json(&self) -> Value {
        match *self {
            SOp::NewArg(a) => json!(["new_argument", a]),
            SOp::RemArg(a) => json!(["remove_argument", a]),
            SOp::NewAtt(a, b) => json!(["new_attack", a, b]),
            SOp::RemAtt(a, b) => json!(["remove_attack", a, b]),
        }
    }
    pub fn from_json(v: &Value) -> SOp {
        let n = |i: usize| v[i].as_u64().unwrap() as u8;
        match v[0].as_str().unwrap() {
            "new_argument" => SOp::NewArg(n(1)),
            "remove_argument" => SOp::RemArg(n(1)),
            "new_attack" => SOp::NewAtt(n(1), n(2)),
            _ => SOp::RemAtt(n(1), n(2)),
        }
    }
}

pub fn alphabet(l: u8) -> Vec<SOp> {
    let mut v = vec![];
    for a in 0..l {
        v.push(SOp::NewArg(a));
    }
    for a in 0..l {
        v.push(SOp::RemArg(a));
    }
    for a in 0..l {
        for b in 0..l {
            v.push(SOp::NewAtt(a, b));
        }
    }
    for a in 0..l {
        for b in 0..l {
            v.push(SOp::RemAtt(a, b));
        }
    }
    v
}

#[derive(Clone, Debug, PartialEq, Eq)]
pub struct RefStore {
    /// label index -> id
    pub args: BTreeMap<u8, usize>,
    pub atts: BTreeSet<(u8, u8)>,
    pub next_id: usize,
}

impl RefStore {
    /// returns whether the reference accepts the operation (Ok) or rejects it (Err)
    pub fn apply(&mut self, op: &SOp) -> bool {
        match *op {
            SOp::NewArg(a) => {
                if !self.args.contains_key(&a) {
                    self.args.insert(a, self.next_id);
                    self.next_id += 1;
                }
                true
            }
            SOp::RemArg(a) => {
                if self.args.remove(&a).is_some() {
                    self.atts.retain(|&(x, y)| x != a && y != a);
                    true
                } else {
                    false
                }
            }
            SOp::NewAtt(a, b) => {
                if self.args.contains_key(&a) && self.args.contains_key(&b) {
                    self.atts.insert((a, b));
                    true
                } else {
                    false
                }
            }
            SOp::RemAtt(a, b) => {
                if self.args.contains_key(&a) && self.args.contains_key(&b) {
                    self.atts.remove(&(a, b))
                } else {
                    false
                }
            }
        }
    }
}

#[derive(Clone, Copy, Debug, PartialEq, Eq, Hash)]
pub enum Init {
    Empty,
    /// new_with_labels([l0, l1])
    TwoLabels,
    /// new_with_labels([l0, l0, l1]) (duplicate label in the constructor)
    DupLabels,
}

impl Init {
    pub fn name(self) -> &'static str {
        match self {
            Init::Empty => "default()",
            Init::TwoLabels => "new_with_labels([l0,l1])",
            Init::DupLabels => "new_with_labels([l0,l0,l1])",
        }
    }
    pub fn from_name(s: &str) -> Init {
        [Init::Empty, Init::TwoLabels, Init::DupLabels].into_iter().find(|i| i.name() == s).unwrap()
    }
}

pub fn make<T: LabelType>(init: Init, labels: &[T]) -> (AAFramework<T>, RefStore) {
    match init {
        Init::Empty => (AAFramework::new_with_argument_set(ArgumentSet::new_with_labels(&[])), RefStore { args: BTreeMap::new(), atts: BTreeSet::new(), next_id: 0 }),
        Init::TwoLabels => (
            AAFramework::new_with_argument_set(ArgumentSet::new_with_labels(&[labels[0].clone(), labels[1].clone()])),
            RefStore { args: [(0u8, 0usize), (1, 1)].into_iter().collect(), atts: BTreeSet::new(), next_id: 2 },
        ),
        Init::DupLabels => (
            AAFramework::new_with_argument_set(ArgumentSet::new_with_labels(&[labels[0].clone(), labels[0].clone(), labels[1].clone()])),
            RefStore { args: [(0u8, 0usize), (1, 1)].into_iter().collect(), atts: BTreeSet::new(), next_id: 2 },
        ),
    }
}

/// Debug rendering with the hash map's entries sorted (the only nondeterministic part).
pub fn canon<T: LabelType>(af: &AAFramework<T>) -> String {
    let s = format!("{:?}", af);
    if let Some(start) = s.find("label_to_id: {") {
        let body_start = start + "label_to_id: {".len();
        if let Some(rel_end) = s[body_start..].find('}') {
            let body = &s[body_start..body_start + rel_end];
            let mut entries: Vec<&str> = if body.trim().is_empty() { vec![] } else { body.split(", ").collect() };
            entries.sort();
            return format!("{}{}{}", &s[..body_start], entries.join(", "), &s[body_start + rel_end..]);
        }
    }
    s
}

pub fn apply_real<T: LabelType>(af: &mut AAFramework<T>, labels: &[T], op: &SOp) -> Result<bool, String> {
    catch(|| match *op {
        SOp::NewArg(a) => {
            af.new_argument(labels[a as usize].clone());
            true
        }
        SOp::RemArg(a) => af.remove_argument(&labels[a as usize]).is_ok(),
        SOp::NewAtt(a, b) => af.new_attack(&labels[a as usize], &labels[b as usize]).is_ok(),
        SOp::RemAtt(a, b) => af.remove_attack(&labels[a as usize], &labels[b as usize]).is_ok(),
    })
}

/// Compare everything observable with the reference. Returns the first discrepancy.
pub fn observe<T: LabelType>(af: &AAFramework<T>, labels: &[T], rf: &RefStore) -> Result<(), String> {
    let r = catch(|| -> Result<(), String> {
        let n = rf.args.len();
        if af.n_arguments() != n {
            return Err(format!("n_arguments() = {}, reference {}", af.n_arguments(), n));
        }
        if af.argument_set().len() != n || af.argument_set().is_empty() != (n == 0) {
            return Err(format!("argument_set().len()/is_empty() = {}/{}, reference {}", af.argument_set().len(), af.argument_set().is_empty(), n));
        }
        if af.n_attacks() != rf.atts.len() {
            return Err(format!("n_attacks() = {}, reference {}", af.n_attacks(), rf.atts.len()));
        }
        let exp_max = if rf.next_id == 0 { None } else { Some(rf.next_id - 1) };
        if af.max_argument_id() != exp_max {
            return Err(format!("max_argument_id() = {:?}, reference {:?}", af.max_argument_id(), exp_max));
        }
        // iteration over arguments: exactly the reference arguments, ids as in the ledger, increasing
        let listed: Vec<(usize, usize)> = af
            .argument_set()
            .iter()
            .map(|a| (labels.iter().position(|l| l == a.label()).unwrap_or(usize::MAX), a.id()))
            .collect();
        let mut expected: Vec<(usize, usize)> = rf.args.iter().map(|(&l, &id)| (l as usize, id)).collect();
        expected.sort_by_key(|x| x.1);
        if listed != expected {
            return Err(format!("argument_set().iter() = {:?} (label index, id), reference {:?}", listed, expected));
        }
        for (li, l) in labels.iter().enumerate() {
            match (af.argument_set().get_argument(l), rf.args.get(&(li as u8))) {
                (Ok(a), Some(&id)) => {
                    if a.id() != id || a.label() != l {
                        return Err(format!("get_argument({}) has id {}, reference {}", l, a.id(), id));
                    }
                }
                (Err(_), None) => {}
                (Ok(_), None) => return Err(format!("get_argument({}) succeeds, reference has no such argument", l)),
                (Err(_), Some(_)) => return Err(format!("get_argument({}) fails, reference has it", l)),
            }
        }
        for id in 0..rf.next_id + 2 {
            let exp = rf.args.iter().find(|(_, &i)| i == id);
            let has = af.argument_set().has_argument_with_id(id);
            if has != exp.is_some() {
                return Err(format!("has_argument_with_id({}) = {}, reference {}", id, has, exp.is_some()));
            }
            if let Some((&l, _)) = exp {
                let a = af.argument_set().get_argument_by_id(id);
                if a.label() != &labels[l as usize] || a.id() != id {
                    return Err(format!("get_argument_by_id({}) = ({}, {})", id, a.label(), a.id()));
                }
            }
        }
        let idx = |l: &T| labels.iter().position(|x| x == l).unwrap() as u8;
        // all attacks: as a multiset (no duplicates allowed since insertion by label de-duplicates)
        let mut all: Vec<(u8, u8)> = af.iter_attacks().map(|a| (idx(a.attacker().label()), idx(a.attacked().label()))).collect();
        all.sort();
        let want: Vec<(u8, u8)> = rf.atts.iter().cloned().collect();
        if all != want {
            return Err(format!("iter_attacks() = {:?}, reference {:?}", all, want));
        }
        for (&l, _) in rf.args.iter() {
            let arg = af.argument_set().get_argument(&labels[l as usize]).unwrap();
            let mut from: Vec<(u8, u8)> = af.iter_attacks_from(arg).map(|a| (idx(a.attacker().label()), idx(a.attacked().label()))).collect();
            from.sort();
            let wfrom: Vec<(u8, u8)> = rf.atts.iter().cloned().filter(|x| x.0 == l).collect();
            if from != wfrom {
                return Err(format!("iter_attacks_from({}) = {:?}, reference {:?}", labels[l as usize], from, wfrom));
            }
            let mut to: Vec<(u8, u8)> = af.iter_attacks_to(arg).map(|a| (idx(a.attacker().label()), idx(a.attacked().label()))).collect();
            to.sort();
            let wto: Vec<(u8, u8)> = rf.atts.iter().cloned().filter(|x| x.1 == l).collect();
            if to != wto {
                return Err(format!("iter_attacks_to({}) = {:?}, reference {:?}", labels[l as usize], to, wto));
            }
        }
        // grounded extension
        let present: Vec<u8> = rf.args.keys().cloned().collect();
        let pos = |l: u8| present.iter().position(|x| *x == l).unwrap();
        let g = Graph::new(present.len(), &rf.atts.iter().map(|&(a, b)| (pos(a), pos(b))).collect::<Vec<_>>());
        let gr = Ref::new(&g).grounded();
        let mut got = 0u32;
        let ge = af.grounded_extension();
        for a in &ge {
            let p = pos(idx(a.label()));
            if got >> p & 1 == 1 {
                return Err(format!("grounded_extension() lists {} twice", a.label()));
            }
            got |= 1 << p;
        }
        if got != gr {
            return Err(format!("grounded_extension() = {:?}, reference {:?} (positions among present arguments)", crate::refmodel::mask_to_vec(got), crate::refmodel::mask_to_vec(gr)));
        }
        Ok(())
    });
    match r {
        Ok(x) => x,
        Err(p) => Err(format!("observer panicked: {}", p)),
    }
}

pub struct BfsResult {
    pub states: u64,
    pub transitions: u64,
    pub rejected_transitions: u64,
    pub max_depth: usize,
    pub violations: BTreeMap<String, (u64, Violation)>,
    pub sample: Option<Value>,
}

fn violation(kind: &str, labels_desc: &str, init: Init, hist: &[SOp], what: &str, msg: String) -> Violation {
    Violation {
        property: "C12".into(),
        key: format!("type={};what={}", kind, what),
        message: format!("AAFramework<{}> from {} after [{}]: {}", kind, init.name(), hist.iter().map(|o| o.short()).collect::<Vec<_>>().join(" "), msg),
        case: json!({"engine": "store", "label_type": kind, "labels": labels_desc, "init": init.name(), "history": hist.iter().map(|o| o.to_json()).collect::<Vec<_>>()}),
    }
}

/// Check one history from scratch (every step); used by BFS expansion on the last step and by replay.
pub type StateHook<'h, T> = &'h (dyn Fn(&AAFramework<T>, &RefStore, &[T]) -> Result<(), String> + Sync);

pub fn check_last_step<T: LabelType>(
    kind: &str,
    labels: &[T],
    init: Init,
    hist: &[SOp],
) -> Result<String, Violation> {
    check_last_step_hook(kind, labels, init, hist, None)
}

pub fn check_last_step_hook<T: LabelType>(
    kind: &str,
    labels: &[T],
    init: Init,
    hist: &[SOp],
    hook: Option<StateHook<T>>,
) -> Result<String, Violation> {
    let note = || format!("AAFramework<{}> from {} during [{}]", kind, init.name(), hist.iter().map(|o| o.short()).collect::<Vec<_>>().join(" "));
    crate::mem::with_note(&note, || check_last_step_hook_inner(kind, labels, init, hist, hook))
}

fn check_last_step_hook_inner<T: LabelType>(
    kind: &str,
    labels: &[T],
    init: Init,
    hist: &[SOp],
    hook: Option<StateHook<T>>,
) -> Result<String, Violation> {
    let labels_desc = format!("{:?}", labels);
    let (mut af, mut rf) = make(init, labels);
    let n = hist.len();
    for (i, op) in hist.iter().enumerate() {
        let last = i + 1 == n;
        let exp_ok = rf.apply(op);
        let got = apply_real(&mut af, labels, op);
        let h = &hist[..=i];
        match got {
            Err(p) => return Err(violation(kind, &labels_desc, init, h, "panic", format!("operation panicked: {}", p))),
            Ok(ok) => {
                if ok != exp_ok {
                    return Err(violation(kind, &labels_desc, init, h, if exp_ok { "valid_update_rejected" } else { "invalid_update_accepted" }, format!("operation returned {}, reference {}", if ok { "Ok" } else { "Err" }, if exp_ok { "Ok" } else { "Err" })));
                }
                // every observer is called after EVERY step (not only the last one), so that an
                // observer with a hidden memo that an update forgets to invalidate is exposed
                if let Err(m) = observe(&af, labels, &rf) {
                    return Err(violation(kind, &labels_desc, init, h, if last { "observation_differs" } else { "observation_differs_after_earlier_observations" }, m));
                }
                if last {
                    if let Some(h2) = hook {
                        if let Err(m) = h2(&af, &rf, labels) {
                            return Err(violation(kind, &labels_desc, init, h, "state_hook", m));
                        }
                    }
                    return Ok(canon(&af));
                }
            }
        }
    }
    // empty history: check the initial state
    if let Err(m) = observe(&af, labels, &rf) {
        return Err(violation(kind, &labels_desc, init, hist, "observation_differs", m));
    }
    if let Some(h2) = hook {
        if let Err(m) = h2(&af, &rf, labels) {
            return Err(violation(kind, &labels_desc, init, hist, "state_hook", m));
        }
    }
    Ok(canon(&af))
}

pub fn bfs<T: LabelType + Send + Sync>(kind: &str, labels: &[T], init: Init, depth: usize) -> BfsResult {
    bfs_hook(kind, labels, init, depth, None)
}

pub fn bfs_hook<T: LabelType + Send + Sync>(kind: &str, labels: &[T], init: Init, depth: usize, hook: Option<StateHook<T>>) -> BfsResult {
    let ops = alphabet(labels.len() as u8);
    let mut res = BfsResult { states: 0, transitions: 0, rejected_transitions: 0, max_depth: 0, violations: BTreeMap::new(), sample: None };
    let mut seen: HashSet<String> = HashSet::new();
    let mut frontier: Vec<Vec<SOp>> = vec![];
    match check_last_step_hook(kind, labels, init, &[], hook) {
        Ok(c) => {
            seen.insert(c);
            frontier.push(vec![]);
            res.states = 1;
        }
        Err(v) => {
            res.violations.insert(v.key.clone(), (1, v));
            return res;
        }
    }
    for d in 1..=depth {
        // expand every frontier history by every operation, in parallel
        let results: Vec<(Vec<SOp>, Result<String, Violation>, bool)> = frontier
            .par_iter()
            .flat_map_iter(|h| {
                ops.iter().map(move |op| {
                    let mut h2 = h.clone();
                    h2.push(*op);
                    // is the operation rejected by the reference? (for statistics)
                    let (_, mut rf) = make::<T>(init, labels);
                    let mut ok = true;
                    for o in &h2 {
                        ok = rf.apply(o);
                    }
                    let r = check_last_step_hook(kind, labels, init, &h2, hook);
                    (h2, r, ok)
                })
            })
            .collect();
        let mut next = vec![];
        for (h2, r, ok) in results {
            res.transitions += 1;
            if !ok {
                res.rejected_transitions += 1;
            }
            match r {
                Ok(c) => {
                    if seen.insert(c) {
                        res.states += 1;
                        if res.sample.is_none() && h2.len() >= 4 {
                            res.sample = Some(json!({"label_type": kind, "init": init.name(), "history": h2.iter().map(|o| o.short()).collect::<Vec<_>>()}));
                        }
                        next.push(h2);
                    }
                }
                Err(v) => {
                    // a violating state is not expanded
                    let e = res.violations.entry(v.key.clone()).or_insert((0, v));
                    e.0 += 1;
                }
            }
        }
        res.max_depth = d;
        frontier = next;
        if frontier.is_empty() {
            break;
        }
    }
    res
}

/// Scripted long histories over 6 labels (hundreds of operations, valid, redundant and invalid ones
/// mixed): ids far beyond the number of live arguments, dozens of freed slots, every attack of a
/// 5-clique toggled, a hub with 10 incident attacks removed and re-added. Every step is checked like a
/// BFS transition (result of the call + every observable against the reference).
pub fn store_scripts() -> Vec<(String, Vec<SOp>)> {
    let mut out = vec![];
    // toggle_all with redundant / invalid operations in between
    let mut h = vec![];
    for a in 0..5u8 {
        h.push(SOp::NewArg(a));
        h.push(SOp::NewArg(a)); // redundant
    }
    for k in 0..25u8 {
        h.push(SOp::NewAtt(k / 5, k % 5));
        if k % 3 == 0 {
            h.push(SOp::NewAtt(k / 5, k % 5)); // redundant
            h.push(SOp::NewAtt(k / 5, 5)); // unknown end point
        }
    }
    for k in 0..25u8 {
        let j = (k * 7 + 3) % 25;
        h.push(SOp::RemAtt(j / 5, j % 5));
        if k % 4 == 0 {
            h.push(SOp::RemAtt(j / 5, j % 5)); // absent now
        }
    }
    out.push(("toggle_all".to_string(), h));
    // churn: the same labels removed and re-added, attacks restored
    let mut h = vec![];
    for a in 0..6u8 {
        h.push(SOp::NewArg(a));
    }
    for a in 0..6u8 {
        h.push(SOp::NewAtt(a, (a + 1) % 6));
        h.push(SOp::NewAtt(a, (a + 2) % 6));
    }
    for r in 0..18u8 {
        let a = (r * 5) % 6;
        h.push(SOp::RemArg(a));
        h.push(SOp::RemArg(a)); // unknown now
        h.push(SOp::NewAtt(a, (a + 1) % 6)); // unknown end point
        h.push(SOp::NewArg(a));
        h.push(SOp::NewAtt(a, (a + 1) % 6));
        h.push(SOp::NewAtt((a + 5) % 6, a));
        if r % 2 == 1 {
            h.push(SOp::NewAtt(a, a));
            h.push(SOp::NewAtt(a, (a + 2) % 6));
        }
    }
    out.push(("churn".to_string(), h));
    // hub: an argument attacking and attacked by all others, removed and re-added; then everything removed
    let mut h = vec![];
    for a in 0..6u8 {
        h.push(SOp::NewArg(a));
    }
    for round in 0..4u8 {
        let hub = round % 6;
        for a in 0..6u8 {
            if a != hub {
                h.push(SOp::NewAtt(hub, a));
                h.push(SOp::NewAtt(a, hub));
            }
        }
        h.push(SOp::NewAtt(hub, hub));
        h.push(SOp::RemArg(hub));
        h.push(SOp::RemAtt(hub, (hub + 1) % 6)); // unknown end point
        h.push(SOp::NewArg(hub));
        h.push(SOp::NewAtt((hub + 1) % 6, (hub + 2) % 6));
    }
    for a in [3u8, 0, 5, 1, 4, 2] {
        h.push(SOp::RemArg(a));
    }
    for a in 0..3u8 {
        h.push(SOp::NewArg(a));
        h.push(SOp::NewAtt(a, 0));
    }
    out.push(("hub".to_string(), h));
    out
}

pub fn run(tier: Tier) -> i32 {
    let mut rep = Report::new("C12", tier);
    let thorough = tier == Tier::Thorough;
    let us2: Vec<usize> = vec![1, 2];
    let us3: Vec<usize> = vec![1, 2, 3];
    let st2: Vec<String> = vec!["a".into(), "b".into()];
    let st3: Vec<String> = vec!["a".into(), "b".into(), "c".into()];
    let d2 = if thorough { 13 } else { 11 };
    let d3 = if thorough { 9 } else { 8 };
    let add = |rep: &mut Report, name: String, r: BfsResult| {
        rep.states += r.states;
        rep.transitions += r.transitions;
        rep.traces += r.transitions;
        rep.evaluations += r.transitions;
        rep.distinct_nontrivial += r.states;
        rep.extra.insert(format!("space:{}", name), json!({"unique_concrete_states": r.states, "transitions": r.transitions, "transitions_rejected_by_reference": r.rejected_transitions, "depth": r.max_depth}));
        if let Some(s) = r.sample {
            rep.add_sample(s);
        }
        for (_, (n, v)) in r.violations {
            rep.n_violations += n - 1;
            rep.add_violation(v);
        }
    };
    for init in [Init::Empty, Init::TwoLabels, Init::DupLabels] {
        let r = bfs("usize", &us2, init, d2);
        add(&mut rep, format!("usize labels {{1,2}}, from {}, depth {}", init.name(), d2), r);
        let r = bfs("String", &st2, init, d2);
        add(&mut rep, format!("String labels {{a,b}}, from {}, depth {}", init.name(), d2), r);
    }
    for init in [Init::Empty, Init::DupLabels] {
        let r = bfs("usize", &us3, init, d3);
        add(&mut rep, format!("usize labels {{1,2,3}}, from {}, depth {}", init.name(), d3), r);
    }
    let r = bfs("String", &st3, Init::Empty, d3);
    add(&mut rep, format!("String labels {{a,b,c}}, from default(), depth {}", d3), r);
    // scripted long histories
    {
        let us6: Vec<usize> = vec![1, 2, 3, 4, 5, 6];
        let st6: Vec<String> = ["a", "b", "c", "d", "e", "f"].iter().map(|x| x.to_string()).collect();
        let mut steps = 0u64;
        let mut n = 0u64;
        for (name, h) in store_scripts() {
            for init in [Init::Empty, Init::TwoLabels] {
                for r in [check_last_step("usize", &us6, init, &h), check_last_step("String", &st6, init, &h)] {
                    n += 1;
                    steps += h.len() as u64;
                    if let Err(mut v) = r {
                        v.key = format!("{};scope=script_{}", v.key, name);
                        rep.add_violation(v);
                    }
                }
            }
        }
        rep.states += steps;
        rep.transitions += steps;
        rep.traces += steps;
        rep.evaluations += steps;
        rep.extra.insert("space:scripted long histories over 6 labels (toggle_all, churn, hub), usize and String labels, from default() and new_with_labels".into(), json!({"histories": n, "steps": steps}));
    }
    rep.rule = "stateful BFS: a state is the full concrete content of the framework (Debug rendering with the hash map's entries sorted), reached by replaying its history on a fresh object; every operation of the alphabet (every operand combination, incl. unknown labels, self-attacks, existing arguments/attacks, repeated removals) is applied in every state up to the depth bound; after each transition every observable (counts, ids, look-ups, three attack views as multisets, grounded extension) is compared with a set-based reference, (a rejected or redundant update therefore leaves everything observable unchanged); distinct_nontrivial = unique concrete states".into();
    rep.bounds = json!({"labels": "2 (depth 11/13) and 3 (depth 8/9)", "ops": "12 / 24 per state"});
    rep.assumptions = vec!["identical concrete states have identical futures (deduplication is on the complete state, no abstraction)".into()];
    rep.finish()
}
