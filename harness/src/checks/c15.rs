//! C15: SAT solver objects honour the incremental solving contract (CadicalSolver and
//! ExternalSatSolver driving the stand-in program), over all bounded histories of
//! add_clause / reserve / solve / solve_under_assumptions.

use crate::choicesat::catch;
use crate::report::{Report, Tier, Violation};
use crustabri::sat::{CadicalSolver, ExternalSatSolver, Literal, SatSolver, SolvingResult};
use rayon::prelude::*;
use serde_json::{json, Value};
use std::collections::BTreeMap;

/// path of the stand-in external SAT program (built next to the driver)
pub fn fake_sat() -> &'static str {
    static P: std::sync::OnceLock<String> = std::sync::OnceLock::new();
    P.get_or_init(|| {
        let exe = std::env::current_exe().ok().and_then(|e| e.parent().map(|d| d.join("fake_sat")));
        match exe {
            Some(p) if p.exists() => p.display().to_string(),
            _ => format!("{}/target/harness/release/fake_sat", crate::report::verif_dir()),
        }
    })
}

#[derive(Clone, Debug, PartialEq, Eq, Hash)]
pub enum SatOp {
    Add(Vec<i32>),
    Reserve(usize),
    Solve,
    Assume(Vec<i32>),
}

impl SatOp {
    pub fn short(&self) -> String {
        match self {
            SatOp::Add(c) => format!("add{:?}", c),
            SatOp::Reserve(k) => format!("reserve({})", k),
            SatOp::Solve => "solve".into(),
            SatOp::Assume(a) => format!("solve_under{:?}", a),
        }
    }
    pub fn to_json(&self) -> Value {
        match self {
            SatOp::Add(c) => json!(["add_clause", c]),
            SatOp::Reserve(k) => json!(["reserve", k]),
            SatOp::Solve => json!(["solve"]),
            SatOp::Assume(a) => json!(["solve_under_assumptions", a]),
        }
    }
    pub fn from_json(v: &Value) -> SatOp {
        let lits = |x: &Value| x.as_array().unwrap().iter().map(|l| l.as_i64().unwrap() as i32).collect::<Vec<_>>();
        match v[0].as_str().unwrap() {
            "add_clause" => SatOp::Add(lits(&v[1])),
            "reserve" => SatOp::Reserve(v[1].as_u64().unwrap() as usize),
            "solve" => SatOp::Solve,
            _ => SatOp::Assume(lits(&v[1])),
        }
    }
    pub fn is_solve(&self) -> bool {
        matches!(self, SatOp::Solve | SatOp::Assume(_))
    }
}

pub fn alphabet() -> Vec<SatOp> {
    let mut v = vec![];
    for c in [vec![], vec![1], vec![-1], vec![2], vec![-3], vec![1, 2], vec![-1, 2], vec![-1, -2], vec![2, 3], vec![-2, -3], vec![1, 2, 3], vec![-1, -2, -3], vec![5]] {
        v.push(SatOp::Add(c));
    }
    v.push(SatOp::Reserve(2));
    v.push(SatOp::Reserve(6));
    v.push(SatOp::Solve);
    for a in [vec![1], vec![-1], vec![-2], vec![3], vec![1, -2], vec![-1, -2, -3], vec![5], vec![-7], vec![1, -1]] {
        v.push(SatOp::Assume(a));
    }
    v
}

#[derive(Clone, Copy, Debug, PartialEq, Eq, Hash, PartialOrd, Ord)]
pub enum BackendKind {
    Cadical,
    External,
    /// the stand-in program replying with 3 literals per `v` line after 700 bytes of comments, largest model
    ExternalWrapped,
}

impl BackendKind {
    pub fn from_name(n: &str) -> BackendKind {
        [BackendKind::Cadical, BackendKind::External, BackendKind::ExternalWrapped].into_iter().find(|b| b.name() == n).unwrap_or(BackendKind::External)
    }
    pub fn name(self) -> &'static str {
        match self {
            BackendKind::Cadical => "CadicalSolver",
            BackendKind::External => "ExternalSatSolver(fake_sat)",
            BackendKind::ExternalWrapped => "ExternalSatSolver(fake_sat vwidth=3 pad=700 prefer=max)",
        }
    }
}

fn make(b: BackendKind) -> Box<dyn SatSolver> {
    match b {
        BackendKind::Cadical => Box::<CadicalSolver>::default(),
        BackendKind::External => Box::new(ExternalSatSolver::new(fake_sat().to_string(), vec![])),
        BackendKind::ExternalWrapped => Box::new(ExternalSatSolver::new(fake_sat().to_string(), vec!["vwidth=3".into(), "pad=700".into(), "prefer=max".into()])),
    }
}

/// truth table over variables 1..=7; beyond that the harness's DPLL (structured long sessions)
fn has_model(clauses: &[Vec<i32>], assum: &[i32]) -> bool {
    let top = clauses.iter().flatten().chain(assum.iter()).map(|l| l.unsigned_abs()).max().unwrap_or(0);
    if top > 7 {
        let vars = crate::dpll::occurring_vars(clauses, assum);
        return crate::dpll::is_sat(clauses, assum, &vars);
    }
    (0..128u32).any(|bits| {
        let lit = |l: i32| {
            let v = bits >> (l.unsigned_abs() - 1) & 1 == 1;
            if l > 0 {
                v
            } else {
                !v
            }
        };
        clauses.iter().all(|c| c.iter().any(|&l| lit(l))) && assum.iter().all(|&l| lit(l))
    })
}

/// Scripted long sessions on structured instances (tens to hundreds of variables, hundreds of
/// clauses, 20+ solve calls on one solver object, clauses added between calls): a finite family, every
/// member executed on every backend. Verdicts come from the harness's DPLL, models are verified.
pub fn long_sessions(thorough: bool) -> Vec<(String, Vec<SatOp>)> {
    let mut out: Vec<(String, Vec<SatOp>)> = vec![];
    let sizes: Vec<i32> = if thorough { vec![12, 45, 130, 400] } else { vec![12, 45, 130] };
    for &k in &sizes {
        // implication chain 1 -> 2 -> ... -> k
        let mut h = vec![];
        for i in 1..k {
            h.push(SatOp::Add(vec![-i, i + 1]));
        }
        for j in 0..8 {
            let v = 1 + (j * (k - 1)) / 8;
            h.push(SatOp::Assume(vec![v]));
            h.push(SatOp::Assume(vec![v, -k]));
            h.push(SatOp::Assume(vec![-v]));
        }
        h.push(SatOp::Add(vec![k / 2]));
        h.push(SatOp::Assume(vec![-k]));
        h.push(SatOp::Assume(vec![-(k / 2 - 1)]));
        h.push(SatOp::Solve);
        out.push((format!("chain({})", k), h));
        // equivalence ladder i <-> i+1, then pinned in the middle
        let mut h = vec![SatOp::Reserve(k as usize)];
        for i in 1..k {
            h.push(SatOp::Add(vec![-i, i + 1]));
            h.push(SatOp::Add(vec![i, -(i + 1)]));
        }
        h.push(SatOp::Assume(vec![1, -k]));
        h.push(SatOp::Assume(vec![-1]));
        h.push(SatOp::Assume(vec![k]));
        h.push(SatOp::Add(vec![k / 2]));
        h.push(SatOp::Assume(vec![-1]));
        h.push(SatOp::Solve);
        out.push((format!("ladder({})", k), h));
        // a top variable that occurs only negatively / only in assumptions / only reserved
        let mut h = vec![SatOp::Add(vec![1, 2]), SatOp::Add(vec![-1, -k])];
        h.push(SatOp::Solve);
        h.push(SatOp::Assume(vec![k]));
        h.push(SatOp::Assume(vec![k, 1]));
        h.push(SatOp::Assume(vec![k + 3]));
        h.push(SatOp::Reserve(k as usize + 9));
        h.push(SatOp::Solve);
        h.push(SatOp::Add(vec![-(k + 9)]));
        h.push(SatOp::Assume(vec![k + 9]));
        h.push(SatOp::Assume(vec![-(k + 9), k + 8]));
        out.push((format!("sparse_top({})", k), h));
    }
    // exactly-one over m variables (pairwise), every single and every adjacent pair assumed
    for m in if thorough { vec![6, 15, 24] } else { vec![6, 15] } {
        let mut h = vec![SatOp::Add((1..=m).collect())];
        for i in 1..=m {
            for j in i + 1..=m {
                h.push(SatOp::Add(vec![-i, -j]));
            }
        }
        for i in 1..=m {
            h.push(SatOp::Assume(vec![i]));
            if i < m {
                h.push(SatOp::Assume(vec![i, i + 1]));
            }
        }
        h.push(SatOp::Assume((1..=m).map(|i| -i).collect()));
        out.push((format!("exactly_one({})", m), h));
    }
    // all variables equal (x_i or not x_j for every ordered pair): the instance text straddles 2^16 bytes
    // (90 variables), 2^20 bytes (350) and, thorough, 2^22 bytes (700); every literal of every clause is
    // the only true one under the all-true or the all-false assumptions, so a lost or altered token
    // changes a verdict
    for m in if thorough { vec![90i32, 350, 700] } else { vec![90, 350] } {
        let mut h = vec![];
        for i in 1..=m {
            for j in 1..=m {
                if i != j {
                    h.push(SatOp::Add(vec![i, -j]));
                }
            }
        }
        h.push(SatOp::Assume((1..=m).collect()));
        h.push(SatOp::Assume((1..=m).map(|i| -i).collect()));
        h.push(SatOp::Assume(vec![1, -2]));
        h.push(SatOp::Solve);
        h.push(SatOp::Add(vec![m / 2]));
        h.push(SatOp::Assume(vec![-m]));
        h.push(SatOp::Assume((1..=m).collect()));
        out.push((format!("all_equal({})", m), h));
    }
    // pigeonhole p+1 into p (unsatisfiable), made satisfiable per call by an escape literal
    for p in [3i32, 4] {
        let var = |pg: i32, hole: i32| pg * p + hole + 1;
        let esc = (p + 1) * p + 1;
        let mut h = vec![];
        for pg in 0..=p {
            let mut c: Vec<i32> = (0..p).map(|hl| var(pg, hl)).collect();
            c.push(esc);
            h.push(SatOp::Add(c));
        }
        for hl in 0..p {
            for a in 0..=p {
                for b in a + 1..=p {
                    h.push(SatOp::Add(vec![-var(a, hl), -var(b, hl)]));
                }
            }
        }
        h.push(SatOp::Solve);
        h.push(SatOp::Assume(vec![-esc]));
        h.push(SatOp::Assume(vec![esc]));
        h.push(SatOp::Assume(vec![-esc, var(0, 0)]));
        h.push(SatOp::Add(vec![-esc]));
        h.push(SatOp::Solve);
        out.push((format!("pigeonhole({}+1 into {})", p, p), h));
    }
    out
}

/// run one history on one backend; first deviation as (step, what, message)
pub fn run_history(b: BackendKind, ops: &[SatOp]) -> Result<u32, (usize, String, String)> {
    let solver = match catch(|| make(b)) {
        Ok(s) => s,
        Err(p) => return Err((0, "panic".into(), format!("constructor panicked: {}", p))),
    };
    run_history_on(solver, ops)
}

/// the same on a solver object supplied by the caller (C16 runs the long sessions with logging on)
pub fn run_history_on(mut solver: Box<dyn SatSolver>, ops: &[SatOp]) -> Result<u32, (usize, String, String)> {
    let mut clauses: Vec<Vec<i32>> = vec![];
    let mut reserved = 0usize;
    let mut max_clause_var = 0usize;
    let mut n_solves = 0;
    for (i, op) in ops.iter().enumerate() {
        let assum: Vec<i32> = match op {
            SatOp::Add(c) => {
                let cl: Vec<Literal> = c.iter().map(|&l| Literal::from(l as isize)).collect();
                if let Err(p) = catch(|| solver.add_clause(cl)) {
                    return Err((i, "panic".into(), format!("add_clause panicked: {}", p)));
                }
                clauses.push(c.clone());
                for l in c {
                    max_clause_var = max_clause_var.max(l.unsigned_abs() as usize);
                }
                continue;
            }
            SatOp::Reserve(k) => {
                if let Err(p) = catch(|| solver.reserve(*k)) {
                    return Err((i, "panic".into(), format!("reserve panicked: {}", p)));
                }
                reserved = reserved.max(*k);
                continue;
            }
            SatOp::Solve => vec![],
            SatOp::Assume(a) => a.clone(),
        };
        n_solves += 1;
        let nv = match catch(|| solver.n_vars()) {
            Ok(n) => n,
            Err(p) => return Err((i, "panic".into(), format!("n_vars panicked: {}", p))),
        };
        if nv < max_clause_var.max(reserved) {
            return Err((i, "n_vars_too_small".into(), format!("n_vars() = {} but variable {} was used / reserved", nv, max_clause_var.max(reserved))));
        }
        let lits: Vec<Literal> = assum.iter().map(|&l| Literal::from(l as isize)).collect();
        let is_plain = matches!(op, SatOp::Solve);
        let res = catch(|| if is_plain { solver.solve() } else { solver.solve_under_assumptions(&lits) });
        let expected_sat = has_model(&clauses, &assum);
        match res {
            Err(p) => return Err((i, "panic".into(), format!("solve call panicked: {}", p))),
            Ok(SolvingResult::Unknown) => return Err((i, "unknown".into(), "a faithful backend reported Unknown".into())),
            Ok(SolvingResult::Unsatisfiable) => {
                if expected_sat {
                    return Err((i, "wrong_unsat".into(), format!("Unsatisfiable reported but clauses {:?} with assumptions {:?} have a model", clauses, assum)));
                }
            }
            Ok(SolvingResult::Satisfiable(m)) => {
                if !expected_sat {
                    return Err((i, "wrong_sat".into(), format!("Satisfiable reported but clauses {:?} with assumptions {:?} have no model", clauses, assum)));
                }
                let declared = max_clause_var.max(reserved).max(assum.iter().map(|l| l.unsigned_abs() as usize).max().unwrap_or(0));
                let mut vals: Vec<Option<bool>> = vec![];
                for v in 1..=declared {
                    match catch(|| m.value_of(v)) {
                        Ok(x) => vals.push(x),
                        Err(p) => return Err((i, "model_not_queryable".into(), format!("value_of({}) panicked although variables up to {} are declared: {}", v, declared, p))),
                    }
                }
                let lit_true = |l: i32| vals[l.unsigned_abs() as usize - 1] == Some(l > 0);
                if let Some(c) = clauses.iter().find(|c| !c.iter().any(|&l| lit_true(l))) {
                    return Err((i, "model_violates_clause".into(), format!("model {:?} does not satisfy clause {:?}", vals, c)));
                }
                if let Some(l) = assum.iter().find(|&&l| !lit_true(l)) {
                    return Err((i, "model_violates_assumption".into(), format!("model {:?} does not satisfy assumption {}", vals, l)));
                }
            }
        }
    }
    Ok(n_solves)
}

#[derive(Default)]
struct Acc {
    histories: u64,
    solves: u64,
    sat_steps: u64,
    violations: BTreeMap<String, (u64, usize, Violation)>,
    sample: Option<Value>,
}

impl Acc {
    fn merge(mut self, o: Acc) -> Acc {
        self.histories += o.histories;
        self.solves += o.solves;
        self.sat_steps += o.sat_steps;
        for (k, (n, len, v)) in o.violations {
            match self.violations.get_mut(&k) {
                None => {
                    self.violations.insert(k, (n, len, v));
                }
                Some(e) => {
                    e.0 += n;
                    if len < e.1 {
                        e.1 = len;
                        e.2 = v;
                    }
                }
            }
        }
        if self.sample.is_none() {
            self.sample = o.sample;
        }
        self
    }
}

/// all histories of length exactly `depth` ending in a solve call, with at most `max_solves` solves
fn explore(b: BackendKind, depth: usize, max_solves: usize) -> Acc {
    let ops = alphabet();
    let firsts: Vec<Vec<usize>> = if depth >= 2 {
        (0..ops.len()).flat_map(|a| (0..ops.len()).map(move |c| vec![a, c])).collect()
    } else {
        (0..ops.len()).map(|a| vec![a]).collect()
    };
    firsts
        .par_iter()
        .with_max_len(1)
        .map(|start| {
            let mut acc = Acc::default();
            fn rec(cur: &mut Vec<usize>, depth: usize, n: usize, f: &mut dyn FnMut(&[usize])) {
                if cur.len() == depth {
                    f(cur);
                    return;
                }
                for a in 0..n {
                    cur.push(a);
                    rec(cur, depth, n, f);
                    cur.pop();
                }
            }
            let mut cur = start.clone();
            rec(&mut cur, depth, ops.len(), &mut |idx| {
                let h: Vec<SatOp> = idx.iter().map(|&i| ops[i].clone()).collect();
                if !h.last().unwrap().is_solve() {
                    return;
                }
                if h.iter().filter(|o| o.is_solve()).count() > max_solves {
                    return;
                }
                acc.histories += 1;
                match run_history(b, &h) {
                    Ok(n) => {
                        acc.solves += n as u64;
                        if acc.sample.is_none() && n >= 2 {
                            acc.sample = Some(json!({"backend": b.name(), "history": h.iter().map(|o| o.short()).collect::<Vec<_>>()}));
                        }
                    }
                    Err((step, what, msg)) => {
                        let key = format!("backend={};what={}", b.name(), what);
                        let witness = &h[..=step];
                        let v = Violation {
                            property: "C15".into(),
                            key: key.clone(),
                            message: format!("{} after [{}]: {}", b.name(), witness.iter().map(|o| o.short()).collect::<Vec<_>>().join(", "), msg),
                            case: json!({"engine": "satobject", "backend": b.name(), "history": witness.iter().map(|o| o.to_json()).collect::<Vec<_>>()}),
                        };
                        match acc.violations.get_mut(&key) {
                            None => {
                                acc.violations.insert(key, (1, witness.len(), v));
                            }
                            Some(e) => {
                                e.0 += 1;
                                if witness.len() < e.1 {
                                    e.1 = witness.len();
                                    e.2 = v;
                                }
                            }
                        }
                    }
                }
            });
            acc
        })
        .reduce(Acc::default, Acc::merge)
}

pub fn run(tier: Tier) -> i32 {
    let mut rep = Report::new("C15", tier);
    let thorough = tier == Tier::Thorough;
    if !std::path::Path::new(fake_sat()).exists() {
        rep.machinery_errors.push(format!("{} not built", fake_sat()));
        return rep.finish();
    }
    let plans = [
        (BackendKind::Cadical, if thorough { 6 } else { 5 }, 3usize),
        (BackendKind::External, if thorough { 4 } else { 3 }, 3usize),
    ];
    for (b, depth, max_solves) in plans {
        let acc = explore(b, depth, max_solves);
        rep.states += acc.histories;
        rep.transitions += acc.histories * depth as u64;
        rep.traces += acc.histories;
        rep.evaluations += acc.solves.max(acc.histories);
        rep.distinct_nontrivial += acc.histories;
        rep.extra.insert(
            format!("space:{} histories of length {} ending in a solve call (<= {} solve calls), alphabet of {} operations", b.name(), depth, max_solves, alphabet().len()),
            json!({"histories": acc.histories, "solve_steps_checked": acc.solves}),
        );
        if let Some(s) = acc.sample {
            rep.add_sample(s);
        }
        for (_, (n, _, v)) in acc.violations {
            rep.n_violations += n - 1;
            rep.add_violation(v);
        }
    }
    // long sessions
    let sessions = long_sessions(thorough);
    let cells: Vec<(BackendKind, usize)> = [BackendKind::Cadical, BackendKind::External, BackendKind::ExternalWrapped].into_iter().flat_map(|b| (0..sessions.len()).map(move |i| (b, i))).collect();
    let acc = cells
        .par_iter()
        .with_max_len(1)
        .map(|&(b, i)| {
            let mut acc = Acc::default();
            let (name, h) = &sessions[i];
            acc.histories += 1;
            match run_history(b, h) {
                Ok(n) => acc.solves += n as u64,
                Err((step, what, msg)) => {
                    let key = format!("backend={};scope=long;what={}", b.name(), what);
                    let witness = &h[..=step];
                    let shown: Vec<String> = witness.iter().rev().take(6).rev().map(|o| o.short()).collect();
                    let v = Violation {
                        property: "C15".into(),
                        key: key.clone(),
                        message: format!("{} session {} at operation {} (... {}): {}", b.name(), name, step + 1, shown.join(", "), msg.chars().take(600).collect::<String>()),
                        case: json!({"engine": "satobject", "backend": b.name(), "history": witness.iter().map(|o| o.to_json()).collect::<Vec<_>>()}),
                    };
                    acc.violations.insert(key, (1, witness.len(), v));
                }
            }
            acc
        })
        .reduce(Acc::default, Acc::merge);
    rep.states += sessions.iter().map(|(_, h)| h.len() as u64).sum::<u64>() * 3;
    rep.transitions += sessions.iter().map(|(_, h)| h.len() as u64).sum::<u64>() * 3;
    rep.traces += acc.histories;
    rep.evaluations += acc.solves;
    rep.extra.insert(
        "space:long sessions (structured instances up to 400+ variables / hundreds of clauses / 20+ solve calls per object) x 3 backends".into(),
        json!({"sessions": sessions.iter().map(|(n, h)| json!({"name": n, "operations": h.len(), "solve_calls": h.iter().filter(|o| o.is_solve()).count()})).collect::<Vec<_>>(), "executions": acc.histories, "solve_steps_checked": acc.solves}),
    );
    for (_, (n, _, v)) in acc.violations {
        rep.n_violations += n - 1;
        rep.add_violation(v);
    }
    rep.rule = "every history of exactly d operations ending in a solve call over an alphabet of 25 operations (13 clauses incl. the empty one and a clause on variable 5, reserve(2|6), solve, 9 assumption lists incl. an unseen variable and contradictory assumptions) is executed on a fresh solver object; at every solve step the verdict and the model are compared with a truth table over 7 variables (model satisfies every clause so far and every assumption of this call, is queryable for every declared variable; UNSAT only if the table has no model; never Unknown); histories shorter than d are prefixes; both backends are judged against the same table, hence against each other; distinct_nontrivial = histories; in addition a finite family of scripted long sessions (chains, equivalence ladders, exactly-one, pigeonhole with an escape literal, sparse top variables) is run on three backends (CaDiCaL, the stand-in program, the stand-in program with wrapped model lines after 700 bytes of comments) with verdicts from the harness DPLL and every model verified".into();
    rep.bounds = json!({"variables": 7, "max_solve_calls_per_history": 3, "long_sessions": "<= 400 variables, <= 30 solve calls"});
    rep.assumptions = vec!["the external backend is the harness's stand-in program (own DPLL, strict DIMACS parser); a value of None counts as not-true".into()];
    rep.finish()
}
