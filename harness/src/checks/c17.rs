//! C17: a failing SAT backend never turns into an answer. Library level: `Unknown` injected at
//! every SAT-call position of every leaf of the oracle choice tree. (Process level: see c17_proc.)

use crate::checks::static_checks::{s_family, small_universe};
use crate::choicesat::{explore, set_want_backtrace, take_last_backtrace, Exec, ExploreCfg, ExploreStats, FvPolicy};
use crate::refmodel::Graph;
use crate::report::{Report, Tier, Violation};
use crate::staticq::{run_query, Out};
use crate::sweep::{case_json, queries_for, with_presentation, ArgLists, BuiltVisitor};
use crate::staticq::QKind;
use crate::universe::{Built, Presentation};
use crustabri::utils::LabelType;
use rayon::prelude::*;
use serde_json::json;
use std::collections::BTreeMap;

/// (file:line) of every `unwrap_model()` call site outside test modules, scanned from /repo/src
pub fn scan_sites() -> Vec<String> {
    fn walk(dir: &std::path::Path, out: &mut Vec<String>) {
        if let Ok(rd) = std::fs::read_dir(dir) {
            let mut entries: Vec<_> = rd.flatten().map(|e| e.path()).collect();
            entries.sort();
            for p in entries {
                if p.is_dir() {
                    walk(&p, out);
                } else if p.extension().map(|e| e == "rs").unwrap_or(false) {
                    if p.ends_with("sat/sat_solver.rs") {
                        continue;
                    }
                    if let Ok(text) = std::fs::read_to_string(&p) {
                        for (i, line) in text.lines().enumerate() {
                            if line.contains("#[cfg(test)]") {
                                break;
                            }
                            if line.contains("unwrap_model()") && !line.trim_start().starts_with("//") {
                                out.push(format!("{}:{}", p.display(), i + 1));
                            }
                        }
                    }
                }
            }
        }
    }
    let mut out = vec![];
    let repo = std::env::var("CVX_REPO").unwrap_or_else(|_| "/repo".to_string());
    walk(&std::path::Path::new(&repo).join("src"), &mut out);
    out
}

/// first crustabri frame outside sat_solver.rs in a captured backtrace
pub fn site_of_backtrace(bt: &str) -> Option<String> {
    let mut after_unwrap = false;
    for line in bt.lines() {
        let l = line.trim();
        if l.contains("unwrap_model") {
            after_unwrap = true;
            continue;
        }
        if after_unwrap {
            if let Some(rest) = l.strip_prefix("at ") {
                if rest.contains("/src/") && (rest.contains("/repo") || rest.contains("crustabri") || rest.contains(&std::env::var("CVX_REPO").unwrap_or_default())) && !rest.contains("sat/sat_solver.rs") && !rest.contains("/rustc/") && !rest.contains("harness/src") {
                    // strip the column
                    let mut parts = rest.rsplitn(2, ':');
                    let _col = parts.next();
                    return parts.next().map(|s| s.to_string());
                }
            }
        }
    }
    None
}

#[derive(Default)]
pub struct Acc {
    pub stats: ExploreStats,
    pub queries: u64,
    pub faults_injected: u64,
    pub faults_aborted: u64,
    pub sites: BTreeMap<String, u64>,
    pub violations: BTreeMap<String, (u64, Violation)>,
    pub samples: Vec<serde_json::Value>,
    pub machinery: Vec<String>,
}

impl Acc {
    pub fn merge(mut self, o: Acc) -> Acc {
        self.stats.add(&o.stats);
        self.queries += o.queries;
        self.faults_injected += o.faults_injected;
        self.faults_aborted += o.faults_aborted;
        for (k, v) in o.sites {
            *self.sites.entry(k).or_insert(0) += v;
        }
        for (k, (n, v)) in o.violations {
            let e = self.violations.entry(k).or_insert((0, v));
            e.0 += n;
        }
        for s in o.samples {
            if self.samples.len() < 4 {
                self.samples.push(s);
            }
        }
        self.machinery.extend(o.machinery);
        self
    }
}

struct FaultSweep<'a> {
    name: &'a str,
    g: &'a Graph,
    pres: Presentation,
    cfg: &'a ExploreCfg,
    with_sites: bool,
    qrange: (usize, usize),
    acc: &'a mut Acc,
}

impl<'a> BuiltVisitor for FaultSweep<'a> {
    fn visit<T: LabelType>(&mut self, b: &Built<T>) {
        let queries = queries_for(self.g.n, &[QKind::SE, QKind::DC, QKind::DS], &crate::refmodel::ALL_SEMS, &[false, true], &ArgLists::Single, false);
        set_want_backtrace(self.with_sites);
        let hi = self.qrange.1.min(queries.len());
        for q in &queries[self.qrange.0.min(hi)..hi] {
            self.acc.queries += 1;
            let mut found: Vec<(Vec<usize>, Option<String>, Option<String>)> = vec![];
            let r = explore(
                self.cfg,
                &mut |f| run_query(b, q, f),
                &mut |e: &Exec<Out>| {
                    if e.faulted {
                        let site = take_last_backtrace().and_then(|bt| site_of_backtrace(&bt));
                        match e.result {
                            Ok(out) => found.push((e.choices.clone(), Some(out.describe()), site)),
                            Err(_) => found.push((e.choices.clone(), None, site)),
                        }
                    }
                },
            );
            match r {
                Ok(st) => self.acc.stats.add(&st),
                Err(m) => self.acc.machinery.push(format!("{} on {}: {}", q.problem(), self.g.describe(), m.0)),
            }
            for (choices, answered, site) in found {
                self.acc.faults_injected += 1;
                if let Some(s) = site {
                    *self.acc.sites.entry(s).or_insert(0) += 1;
                }
                match answered {
                    None => self.acc.faults_aborted += 1,
                    Some(desc) => {
                        let key = format!("level=library;problem={};enc={};symptom=answer_after_unknown", q.problem(), q.enc.name());
                        let mut case = case_json(self.name, self.g, self.pres, q, "choicesat", self.cfg.fv, &choices);
                        case["faults"] = json!(true);
                        let v = Violation {
                            property: "C17".into(),
                            key: key.clone(),
                            message: format!(
                                "{} {:?} cert={} enc={} on {} [{}]: SAT call {} answered Unknown (choices {:?}) but the query returned: {}",
                                q.problem(), q.args, q.cert, q.enc.name(), self.g.describe(), self.pres.name(), choices.len(), choices, desc
                            ),
                            case,
                        };
                        let e = self.acc.violations.entry(key).or_insert((0, v));
                        e.0 += 1;
                    }
                }
                if self.acc.samples.len() < 2 {
                    self.acc.samples.push(json!({"graph": self.g.describe(), "query": q.to_json(), "fault_at_call": choices.len(), "choices": choices}));
                }
            }
        }
        set_want_backtrace(false);
    }
}

pub fn run_library(rep: &mut Report, tier: Tier) {
    let thorough = tier == Tier::Thorough;
    let full = ExploreCfg { dev_bound: None, faults: true, fv: FvPolicy::False, ..ExploreCfg::default() };
    let mut plans: Vec<(String, Vec<(String, Graph)>, Vec<Presentation>, ExploreCfg, bool)> = vec![
        ("U(<=2), fault at every call of the complete tree, call sites identified by backtrace".into(), small_universe(2), vec![Presentation::Compact], full.clone(), true),
        ("U(3), fault at every call of the complete tree".into(), crate::checks::static_checks::exact_universe(3), vec![Presentation::Compact, Presentation::Hole], full.clone(), false),
        (format!("S, fault at every call, D<={}", if thorough { 1 } else { 0 }), s_family(), vec![Presentation::Compact], ExploreCfg { dev_bound: Some(if thorough { 1 } else { 0 }), ..full.clone() }, false),
    ];
    if thorough {
        plans.push(("U(4), fault at every call of the default path (D=0)".into(), crate::checks::static_checks::exact_universe(4), vec![Presentation::Compact], ExploreCfg { dev_bound: Some(0), ..full.clone() }, false));
    }
    let mut sites_hit: BTreeMap<String, u64> = BTreeMap::new();
    for (name, graphs, pres, cfg, with_sites) in plans {
        let mut tasks: Vec<(usize, Presentation, usize, usize)> = vec![];
        for (i, (_, g)) in graphs.iter().enumerate() {
            let nq = queries_for(g.n, &[QKind::SE, QKind::DC, QKind::DS], &crate::refmodel::ALL_SEMS, &[false, true], &ArgLists::Single, false).len();
            let chunk = if g.n <= 3 { nq.max(1) } else if g.n <= 5 { 16 } else { 2 };
            for &p in &pres {
                let mut s = 0;
                while s < nq {
                    tasks.push((i, p, s, (s + chunk).min(nq)));
                    s += chunk;
                }
            }
        }
        let acc = tasks
            .par_iter()
            .with_max_len(1)
            .map(|&(gi, p, qs, qe)| {
                let mut acc = Acc::default();
                let (gname, g) = &graphs[gi];
                let mut sw = FaultSweep { name: gname, g, pres: p, cfg: &cfg, with_sites, qrange: (qs, qe), acc: &mut acc };
                with_presentation(g, p, &mut sw);
                acc
            })
            .reduce(Acc::default, Acc::merge);
        rep.states += acc.stats.nodes;
        rep.transitions += acc.stats.edges;
        rep.traces += acc.stats.execs;
        rep.evaluations += acc.faults_injected;
        if acc.stats.alt_capped || acc.stats.exec_capped {
            rep.exhaustive = false;
        }
        rep.extra.insert(
            format!("space:{}", name),
            json!({"graphs": graphs.len(), "queries": acc.queries, "executions": acc.stats.execs, "faults_injected": acc.faults_injected,
                   "faults_that_aborted_the_query": acc.faults_aborted, "alternative_cap_hit": acc.stats.alt_capped, "execution_cap_hit": acc.stats.exec_capped}),
        );
        for (k, v) in acc.sites {
            *sites_hit.entry(k).or_insert(0) += v;
        }
        for s in acc.samples {
            rep.add_sample(s);
        }
        for (_, (n, v)) in acc.violations {
            rep.n_violations += n - 1;
            rep.add_violation(v);
        }
        rep.machinery_errors.extend(acc.machinery);
    }
    let all_sites = scan_sites();
    let table: BTreeMap<String, u64> = all_sites.iter().map(|s| (s.clone(), *sites_hit.get(s).unwrap_or(&0))).collect();
    let uncovered: Vec<&String> = table.iter().filter(|(_, &n)| n == 0).map(|(s, _)| s).collect();
    rep.extra.insert("unwrap_model_sites_reached_by_injected_faults(static part)".into(), json!(table));
    rep.extra.insert("sites_not_reached_by_static_part".into(), json!(uncovered));
    rep.extra.insert("other_sites_seen".into(), json!(sites_hit.iter().filter(|(k, _)| !all_sites.contains(k)).collect::<BTreeMap<_, _>>()));
    rep.distinct_nontrivial += sites_hit.len() as u64;
}

pub fn run(tier: Tier) -> i32 {
    let mut rep = Report::new("C17", tier);
    run_library(&mut rep, tier);
    crate::checks::c17_more::run_rest(&mut rep, tier);
    rep.rule = "library level: for every (graph, presentation, problem, encoder, argument, certificate flag) and every node of the oracle choice tree one extra execution in which that SAT call answers Unknown; the query must unwind without producing a status, certificate or extension; distinct_nontrivial = distinct unwrap_model call sites (file:line, from backtraces) reached by an injected fault plus distinct process-level failure scenarios".into();
    rep.bounds = json!({"fault_budget": 1, "positions": "every SAT call of every explored execution"});
    rep.assumptions = vec![
        "a panic (unwinding out of the query) is the accepted way to abort; the harness catches it".into(),
        "same trusted base as C01".into(),
    ];
    rep.finish()
}
