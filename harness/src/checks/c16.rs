//! C16: the exchange with an external SAT solver is well-formed and cannot hang.
//!  (1) every DIMACS instance written while answering argumentation problems (static and dynamic
//!      solvers) through ExternalSatSolver is parsed strictly by the stand-in program;
//!  (2) replies of any shape (all sequences of <= k lines over an alphabet, with / without final
//!      newline) are interpreted faithfully (three-zone oracle);
//!  (3) volume and interleaving: Promela model explored by spin + conformance grid on the real code.

use crate::checks::c15::fake_sat;
use crate::choicesat::catch;
use crate::dimacs::{parse_reply_strict, StrictReply};
use crate::refmodel::{Graph, RefAnswers};
use crate::report::{Report, Tier, Violation};
use crate::staticq::{judge, run_query, Out, QKind, Query};
use crate::sweep::{queries_for, with_presentation, ArgLists, BuiltVisitor};
use crate::universe::{Built, Presentation};
use crustabri::sat::{ExternalSatSolver, Literal, SatSolver, SatSolverFactoryFn, SolvingResult};
use crustabri::utils::LabelType;
use rayon::prelude::*;
use serde_json::{json, Value};
use std::collections::BTreeMap;
use std::path::PathBuf;

pub fn scratch_dir(name: &str) -> PathBuf {
    let d = PathBuf::from(std::env::var("CVX_TARGET_DIR").unwrap_or_else(|_| format!("{}/target", crate::report::verif_dir()))).join("scratch").join(name);
    let _ = std::fs::create_dir_all(&d);
    d
}

pub fn external_factory(opts: Vec<String>) -> Box<SatSolverFactoryFn> {
    // at most 300 SAT calls (= processes) per solver object: a diverging search becomes a panic
    Box::new(move || Box::new(crate::staticq::Limited { inner: ExternalSatSolver::new(fake_sat().to_string(), opts.clone()), calls: 0, limit: 300, literals: 0 }))
}

#[derive(Default)]
pub struct ExtAcc {
    pub queries: u64,
    pub instances: u64,
    pub assumption_only_instances: u64,
    pub status_mismatch: u64,
    pub violations: BTreeMap<(String, String), (u64, Violation)>,
    pub sample: Option<Value>,
}

impl ExtAcc {
    pub fn merge(mut self, o: ExtAcc) -> ExtAcc {
        self.queries += o.queries;
        self.instances += o.instances;
        self.assumption_only_instances += o.assumption_only_instances;
        self.status_mismatch += o.status_mismatch;
        for (k, (n, v)) in o.violations {
            let e = self.violations.entry(k).or_insert((0, v));
            e.0 += n;
        }
        if self.sample.is_none() {
            self.sample = o.sample;
        }
        self
    }
    pub fn add(&mut self, v: Violation) {
        let k = (v.property.clone(), v.key.clone());
        let e = self.violations.entry(k).or_insert((0, v));
        e.0 += 1;
    }
}

/// read and clear the side log; returns the records
fn drain_log(path: &PathBuf) -> Vec<Value> {
    let text = std::fs::read_to_string(path).unwrap_or_default();
    let _ = std::fs::remove_file(path);
    text.lines().filter_map(|l| serde_json::from_str(l).ok()).collect()
}

struct ExtSweep<'a> {
    idx: usize,
    name: &'a str,
    g: &'a Graph,
    pres: Presentation,
    ra: &'a RefAnswers,
    log: PathBuf,
    acc: &'a mut ExtAcc,
}

impl<'a> BuiltVisitor for ExtSweep<'a> {
    fn visit<T: LabelType>(&mut self, b: &Built<T>) {
        let queries = queries_for(self.g.n, &[QKind::SE, QKind::DC, QKind::DS], &crate::refmodel::ALL_SEMS, &[false, true], &ArgLists::Single, false);
        for q in &queries {
            if crate::staticq::encoder_menu(q.kind, q.sem, false) == vec![crate::staticq::Enc::LibDefault] && q.sem != crate::refmodel::Sem::ST {
                continue; // no SAT call at all (grounded)
            }
            self.acc.queries += 1;
            // the model is split over `v` lines of 1, 2 or 3 literals and preceded by some comment lines
            let opts = vec![format!("log={}", self.log.display()), format!("vwidth={}", 1 + (self.idx + self.acc.queries as usize) % 3), format!("pad={}", 64 * ((self.idx + self.acc.queries as usize) % 4))];
            let res = catch(|| run_query(b, q, external_factory(opts)));
            let recs = drain_log(&self.log);
            let case = |extra: Value| {
                json!({"engine": "external", "graph_name": self.name, "graph": self.g.to_json(), "presentation": self.pres.name(), "query": q.to_json(), "detail": extra})
            };
            for r in &recs {
                self.acc.instances += 1;
                let probs = r["problems"].as_array().cloned().unwrap_or_default();
                if !probs.is_empty() {
                    let what = if probs.iter().any(|p| p.as_str().unwrap_or("").contains("exceeds the header")) {
                        "header_variable_count"
                    } else if probs.iter().any(|p| p.as_str().unwrap_or("").contains("header announces")) {
                        "header_clause_count"
                    } else {
                        "malformed_instance"
                    };
                    self.acc.add(Violation {
                        property: "C16".into(),
                        key: format!("part=instance;problem={};what={}", q.problem(), what),
                        message: format!("{} {:?} enc={} on {}: SAT call {} wrote an ill-formed DIMACS instance: {:?} (header {} vars / {} clauses, real max var {}, {} clauses)", q.problem(), q.args, q.enc.name(), self.g.describe(), r["call"], probs, r["header_vars"], r["header_clauses"], r["max_var"], r["n_clauses"]),
                        case: case(r.clone()),
                    });
                }
            }
            if self.acc.sample.is_none() && recs.len() >= 2 {
                self.acc.sample = Some(json!({"graph": self.g.describe(), "query": q.to_json(), "instances_logged": recs}));
            }
            match res {
                Ok(out) => {
                    let errs = judge(self.ra, q, &out);
                    if !errs.is_empty() {
                        self.acc.status_mismatch += 1;
                        self.acc.add(Violation {
                            property: "C06".into(),
                            key: format!("part=external_backend;problem={};enc={}", q.problem(), q.enc.name()),
                            message: format!("{} {:?} cert={} enc={} on {} through the external backend: {:?} -- observed {}", q.problem(), q.args, q.cert, q.enc.name(), self.g.describe(), errs, out.describe()),
                            case: case(json!({"observed": out.describe()})),
                        });
                    }
                }
                Err(p) => {
                    self.acc.add(Violation {
                        property: "C16".into(),
                        key: format!("part=instance;problem={};what=panic_with_faithful_backend", q.problem()),
                        message: format!("{} {:?} enc={} on {} through the external backend panicked: {}", q.problem(), q.args, q.enc.name(), self.g.describe(), p),
                        case: case(json!({"panic": p})),
                    });
                }
            }
        }
    }
}

pub fn external_sweep(graphs: &[(String, Graph)], tag: &str) -> ExtAcc {
    let dir = scratch_dir(tag);
    graphs
        .par_iter()
        .enumerate()
        .with_max_len(1)
        .map(|(i, (name, g))| {
            let mut acc = ExtAcc::default();
            let ra = RefAnswers::new(g);
            let mut sw = ExtSweep { idx: i, name, g, pres: Presentation::Compact, ra: &ra, log: dir.join(format!("{}.log", i)), acc: &mut acc };
            with_presentation(g, Presentation::Compact, &mut sw);
            acc
        })
        .reduce(ExtAcc::default, ExtAcc::merge)
}

/// dynamic solvers on one shared external solver object: instances of every query of every history
fn dynamic_external(depth: usize) -> ExtAcc {
    use crate::dynamic::*;
    let dir = scratch_dir("c16dyn");
    let kinds = vec![DynKind::Complete, DynKind::Stable, DynKind::Preferred, DynKind::CompleteAtt(1), DynKind::StableAtt(1)];
    let mut tasks: Vec<(DynKind, Vec<Op>)> = vec![];
    for &k in &kinds {
        let alpha = Alphabet { n_labels: 2, kind: k, with_unknown_label: false, nocert_queries: false, max_queries: 2, queries_only: false, updates_then_query: false, tail: 0, nodes: std::cell::Cell::new(0) };
        alpha.for_each_history(&[], depth, 0, &mut |h| {
            if h.last().map(|o| o.is_query()).unwrap_or(false) && h.iter().filter(|o| o.is_query()).count() == 2 {
                tasks.push((k, h.to_vec()));
            }
        });
    }
    tasks
        .par_iter()
        .enumerate()
        .map(|(i, (kind, h))| {
            let mut acc = ExtAcc::default();
            let log = dir.join(format!("{}.log", i));
            acc.queries += 1;
            let obs = run_history(*kind, h, external_factory(vec![format!("log={}", log.display())]));
            for r in drain_log(&log) {
                acc.instances += 1;
                let probs = r["problems"].as_array().cloned().unwrap_or_default();
                if !probs.is_empty() {
                    acc.add(Violation {
                        property: "C16".into(),
                        key: format!("part=instance;solver={};what=malformed_instance", kind.type_name()),
                        message: format!("{} history [{}]: SAT call {} wrote an ill-formed DIMACS instance: {:?}", kind.name(), history_str(h), r["call"], probs),
                        case: json!({"engine": "external_dynamic", "solver": kind.name(), "history": h.iter().map(|o| o.to_json()).collect::<Vec<_>>()}),
                    });
                }
            }
            if let Some(d) = judge_history(*kind, h, &obs) {
                acc.add(Violation {
                    property: "C06".into(),
                    key: format!("part=external_backend;solver={}", kind.type_name()),
                    message: format!("history [{}] through the external backend: {}", history_str(h), d.message),
                    case: json!({"engine": "external_dynamic", "solver": kind.name(), "history": h.iter().map(|o| o.to_json()).collect::<Vec<_>>()}),
                });
            }
            acc
        })
        .reduce(ExtAcc::default, ExtAcc::merge)
}

/// the scripted long sessions of C15 (instances up to megabytes, 20+ calls per object) through the
/// real ExternalSatSolver with the stand-in program logging what it receives
pub fn long_sessions_external(thorough: bool) -> ExtAcc {
    long_sessions_external_named(thorough, None)
}

pub fn long_sessions_external_named(thorough: bool, only: Option<&str>) -> ExtAcc {
    let dir = scratch_dir("c16long");
    let sessions: Vec<(String, Vec<crate::checks::c15::SatOp>)> = crate::checks::c15::long_sessions(thorough).into_iter().filter(|(n, _)| only.map(|o| o == n).unwrap_or(true)).collect();
    let idx: Vec<usize> = (0..sessions.len()).collect();
    idx.par_iter()
        .with_max_len(1)
        .map(|&i| {
            let mut acc = ExtAcc::default();
            let (name, h) = &sessions[i];
            let log = dir.join(format!("{}.log", i));
            let _ = std::fs::remove_file(&log);
            acc.queries += 1;
            let solver: Box<dyn crustabri::sat::SatSolver> = Box::new(ExternalSatSolver::new(fake_sat().to_string(), vec![format!("log={}", log.display()), "vwidth=5".into()]));
            let res = crate::checks::c15::run_history_on(solver, h);
            let case = |_upto: usize| json!({"engine": "long_session_external", "session": name, "thorough": thorough});
            for r in drain_log(&log) {
                acc.instances += 1;
                let probs = r["problems"].as_array().cloned().unwrap_or_default();
                if !probs.is_empty() {
                    acc.add(Violation {
                        property: "C16".into(),
                        key: "part=instance;scope=long_session;what=malformed_instance".into(),
                        message: format!("session {}: SAT call {} wrote an ill-formed DIMACS instance of {} bytes: {:?} (header {} vars / {} clauses, real max var {}, {} clauses)", name, r["call"], r["bytes"], probs, r["header_vars"], r["header_clauses"], r["max_var"], r["n_clauses"]),
                        case: case(h.len()),
                    });
                }
            }
            if let Err((step, what, msg)) = res {
                acc.add(Violation {
                    property: "C16".into(),
                    key: format!("part=long_session;what={}", what),
                    message: format!("session {} at operation {}: {}", name, step + 1, msg.chars().take(500).collect::<String>()),
                    case: case(step + 1),
                });
            }
            acc
        })
        .reduce(ExtAcc::default, ExtAcc::merge)
}

// ---------------------------------------------------------------------------------------------
// (2) replies of any shape

pub const REPLY_LINES: [&str; 18] = [
    "caught signal 11",
    "s SATISFIABLE", "s UNSATISFIABLE", "s UNKNOWN", "v 1 -2 0", "v 1 -2", "v 1", "v -2 0", "v 0", "v", "v ", "v 1 x 0", "v 3 0", "v 1 0 2", "c", "c text", "", "garbage",
];

#[derive(Clone, Debug, PartialEq, Eq)]
pub enum ReplyObs {
    Sat(Vec<Option<bool>>),
    Unsat,
    Unknown,
    Panic(String),
}

pub fn feed_reply(reply: &[u8]) -> ReplyObs {
    let hex: String = reply.iter().map(|b| format!("{:02x}", b)).collect();
    let r = catch(|| {
        let mut s = ExternalSatSolver::new(fake_sat().to_string(), vec![format!("replyhex={}", hex)]);
        s.add_clause(vec![Literal::from(1isize), Literal::from(2isize)]);
        match s.solve() {
            SolvingResult::Satisfiable(m) => ReplyObs::Sat(vec![m.value_of(1usize), m.value_of(2usize)]),
            SolvingResult::Unsatisfiable => ReplyObs::Unsat,
            SolvingResult::Unknown => ReplyObs::Unknown,
        }
    });
    match r {
        Ok(o) => o,
        Err(p) => ReplyObs::Panic(p),
    }
}

/// deviation of the observed interpretation from the strict parser's verdict, if any
pub fn judge_reply(reply: &[u8], obs: &ReplyObs) -> Option<(String, String)> {
    let strict = parse_reply_strict(reply, 2);
    match (&strict, obs) {
        (StrictReply::Unspecified(_), _) => None,
        (StrictReply::Sat(v), ReplyObs::Sat(m)) => {
            if v == m {
                None
            } else {
                Some(("wrong_model".into(), format!("reply gives the model {:?}, reported {:?}", v, m)))
            }
        }
        (StrictReply::Sat(_), other) => Some(("wellformed_sat_not_reported".into(), format!("well-formed SAT reply reported as {:?}", other))),
        (StrictReply::Unsat, ReplyObs::Unsat) => None,
        (StrictReply::Unsat, other) => Some(("wellformed_unsat_not_reported".into(), format!("well-formed UNSAT reply reported as {:?}", other))),
        (StrictReply::Undecided(_), ReplyObs::Unknown) | (StrictReply::Undecided(_), ReplyObs::Panic(_)) => None,
        (StrictReply::Undecided(why), ReplyObs::Sat(m)) => Some((format!("undecided_reported_sat"), format!("reply carries no usable verdict ({}), reported Satisfiable({:?})", why, m))),
        (StrictReply::Undecided(why), ReplyObs::Unsat) => Some((format!("undecided_reported_unsat"), format!("reply carries no usable verdict ({}), reported Unsatisfiable", why))),
    }
}

fn reply_sweep(k: usize) -> (u64, [u64; 4], BTreeMap<String, (u64, usize, Violation)>, Option<Value>) {
    let n = REPLY_LINES.len();
    let mut seqs: Vec<Vec<usize>> = vec![vec![]];
    let mut cur: Vec<Vec<usize>> = vec![vec![]];
    for _ in 0..k {
        let mut next = vec![];
        for c in &cur {
            for a in 0..n {
                let mut d = c.clone();
                d.push(a);
                next.push(d);
            }
        }
        seqs.extend(next.iter().cloned());
        cur = next;
    }
    let results: Vec<(Vec<u8>, ReplyObs)> = seqs
        .par_iter()
        .flat_map_iter(|s| {
            let joined = s.iter().map(|&i| REPLY_LINES[i]).collect::<Vec<_>>().join("\n");
            let mut v = vec![];
            if !s.is_empty() {
                v.push(format!("{}\n", joined).into_bytes());
            }
            v.push(joined.into_bytes());
            v.into_iter().map(|r| {
                let o = feed_reply(&r);
                (r, o)
            })
        })
        .collect();
    let mut zones = [0u64; 4];
    let mut viol: BTreeMap<String, (u64, usize, Violation)> = BTreeMap::new();
    let mut sample = None;
    for (r, o) in &results {
        match parse_reply_strict(r, 2) {
            StrictReply::Sat(_) => zones[0] += 1,
            StrictReply::Unsat => zones[1] += 1,
            StrictReply::Undecided(_) => zones[2] += 1,
            StrictReply::Unspecified(_) => zones[3] += 1,
        }
        if sample.is_none() && r.len() > 20 {
            sample = Some(json!({"reply": String::from_utf8_lossy(r), "observed": format!("{:?}", o)}));
        }
        if let Some((what, msg)) = judge_reply(r, o) {
            let key = format!("part=reply;what={}", what);
            let v = Violation {
                property: "C16".into(),
                key: key.clone(),
                message: format!("reply {:?}: {}", String::from_utf8_lossy(r), msg),
                case: json!({"engine": "reply", "bytes": r}),
            };
            match viol.get_mut(&key) {
                None => {
                    viol.insert(key, (1, r.len(), v));
                }
                Some(e) => {
                    e.0 += 1;
                    if r.len() < e.1 {
                        e.1 = r.len();
                        e.2 = v;
                    }
                }
            }
        }
    }
    (results.len() as u64, zones, viol, sample)
}

pub fn graphs_for_external(thorough: bool) -> Vec<(String, Graph)> {
    let mut gs: Vec<(String, Graph)> = crate::universe::universe_upto(2).into_iter().map(|g| (format!("U:{}#{}", g.n, g.code()), g)).collect();
    if thorough {
        gs.extend(crate::universe::all_graphs(3).map(|g| (format!("U:3#{}", g.code()), g)));
    } else {
        gs.extend(crate::universe::iso_representatives(3).into_iter().map(|g| (format!("U3iso#{}", g.code()), g)));
    }
    for (n, g) in crate::universe::family_s() {
        if g.n <= 8 && (thorough || n.ends_with("_v0") || !n.starts_with("prod")) {
            gs.push((format!("S:{}", n), g));
        }
    }
    gs
}

pub fn run(tier: Tier) -> i32 {
    let mut rep = Report::new("C16", tier);
    let thorough = tier == Tier::Thorough;
    if !std::path::Path::new(fake_sat()).exists() {
        rep.machinery_errors.push(format!("{} not built", fake_sat()));
        return rep.finish();
    }
    // (1) instances
    let graphs = graphs_for_external(thorough);
    let acc = external_sweep(&graphs, "c16");
    rep.states += acc.instances;
    rep.transitions += acc.instances;
    rep.traces += acc.instances;
    rep.evaluations += acc.instances;
    rep.extra.insert("part1:instances written by the static solvers".into(), json!({"graphs": graphs.len(), "queries": acc.queries, "dimacs_instances_parsed_strictly": acc.instances}));
    if let Some(s) = acc.sample {
        rep.add_sample(s);
    }
    for (_, (n, v)) in acc.violations {
        if v.property == "C16" {
            rep.n_violations += n - 1;
            rep.add_violation(v);
        }
    }
    let lacc = long_sessions_external(thorough);
    rep.states += lacc.instances;
    rep.transitions += lacc.instances;
    rep.traces += lacc.instances;
    rep.evaluations += lacc.instances;
    rep.extra.insert("part1:instances written during the scripted long sessions of C15 (up to megabytes of clause text, 20+ calls per object)".into(), json!({"sessions": lacc.queries, "dimacs_instances_parsed_strictly": lacc.instances}));
    for (_, (n, v)) in lacc.violations {
        rep.n_violations += n - 1;
        rep.add_violation(v);
    }
    let dacc = dynamic_external(if thorough { 6 } else { 5 });
    rep.states += dacc.instances;
    rep.transitions += dacc.instances;
    rep.traces += dacc.instances;
    rep.evaluations += dacc.instances;
    rep.extra.insert("part1:instances written by the dynamic solvers (one shared solver object per history)".into(), json!({"histories": dacc.queries, "dimacs_instances_parsed_strictly": dacc.instances}));
    for (_, (n, v)) in dacc.violations {
        if v.property == "C16" {
            rep.n_violations += n - 1;
            rep.add_violation(v);
        }
    }
    // (2) replies
    let k = if thorough { 4 } else { 3 };
    let (n_replies, zones, viol, sample) = reply_sweep(k);
    rep.states += n_replies;
    rep.transitions += n_replies;
    rep.traces += n_replies;
    rep.evaluations += n_replies;
    rep.distinct_nontrivial += zones[0] + zones[1] + zones[2];
    rep.extra.insert(
        format!("part2:all replies of <= {} lines over {} lines, with / without final newline", k, REPLY_LINES.len()),
        json!({"replies": n_replies, "wellformed_sat": zones[0], "wellformed_unsat": zones[1], "no_usable_verdict": zones[2], "unspecified": zones[3]}),
    );
    if let Some(s) = sample {
        rep.add_sample(s);
    }
    for (_, (n, _, v)) in viol {
        rep.n_violations += n - 1;
        rep.add_violation(v);
    }
    // (3) volume / interleaving
    crate::checks::c16_pipes::run_part3(&mut rep, tier);
    rep.rule = "part 1: every SAT call made while answering every problem on the listed frameworks (static solvers) and on every 2-label history with two queries (dynamic solvers) goes through ExternalSatSolver to the stand-in program, whose strict DIMACS parser logs header counts vs. real counts; part 2: every reply of <= k lines over a 17-line alphabet is fed back as the whole answer for a 2-variable instance and the interpretation compared with a strict parser of the SAT-competition output format (three zones); part 3: see part3 keys; distinct_nontrivial = replies in a decided zone + scenarios".into();
    rep.bounds = json!({"reply_lines": k, "frameworks": "U(<=2) + 3-argument frameworks (iso classes quick / all thorough) + S members with <= 8 arguments"});
    rep.assumptions = vec![
        "the OS scheduler is not controlled on the real code: interleavings are explored on the Promela model, the code is bound to it by the outcome table and syscall order of a finite scenario grid".into(),
        "the stand-in program's strict parsers define well-formedness of instances and replies".into(),
    ];
    rep.finish()
}
