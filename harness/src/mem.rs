//! Memory guard. A library call that allocates without bound (a loop pushing onto a Vec) cannot be
//! stopped from inside the process by a panic, and left alone it takes the whole machine down. The
//! harness therefore counts, per thread, the bytes allocated inside every guarded library call
//! (`choicesat::catch`) and, when one call holds more than the limit, reports that call as a
//! violation (it will never return an answer), writes evidence and a replay file, and exits 1.

use std::alloc::{GlobalAlloc, Layout, System};
use std::cell::Cell;
use std::sync::atomic::{AtomicBool, AtomicUsize, Ordering};
use std::sync::OnceLock;

pub struct Counting;

type NoteFn = dyn Fn() -> String;

thread_local! {
    static ARMED: Cell<bool> = const { Cell::new(false) };
    static NET: Cell<isize> = const { Cell::new(0) };
    static PEAK_T: Cell<isize> = const { Cell::new(0) };
    static NOTE: Cell<Option<*const NoteFn>> = const { Cell::new(None) };
}

/// bytes one guarded call may hold before it is reported (default 2 GiB; CVX_MEM_LIMIT_MB)
static LIMIT: AtomicUsize = AtomicUsize::new(2 << 30);
static PEAK: AtomicUsize = AtomicUsize::new(0);
static EMERGENCY: AtomicBool = AtomicBool::new(false);
static CONTEXT: OnceLock<(String, crate::report::Tier)> = OnceLock::new();

pub fn init(property: &str, tier: crate::report::Tier) {
    if let Some(mb) = std::env::var("CVX_MEM_LIMIT_MB").ok().and_then(|x| x.parse::<usize>().ok()) {
        LIMIT.store(mb << 20, Ordering::Relaxed);
    }
    // backstop for allocations the counter cannot see (C++ side of the embedded SAT solver): the
    // process dies with an allocation failure instead of taking the machine down
    let gb = std::env::var("CVX_AS_LIMIT_GB").ok().and_then(|x| x.parse::<u64>().ok()).unwrap_or(44);
    unsafe {
        let r = libc::rlimit { rlim_cur: gb << 30, rlim_max: gb << 30 };
        libc::setrlimit(libc::RLIMIT_AS, &r);
    }
    let b = property.as_bytes();
    if b.len() == 3 && b[0] == b'C' && b[1].is_ascii_digit() && b[2].is_ascii_digit() {
        let _ = CONTEXT.set((property.to_string(), tier));
    }
}

pub fn limit_bytes() -> usize {
    LIMIT.load(Ordering::Relaxed)
}

/// largest amount held by one guarded call so far in this process
pub fn peak_bytes() -> usize {
    PEAK.load(Ordering::Relaxed)
}

#[inline]
fn track(delta: isize) {
    let _ = ARMED.try_with(|a| {
        if a.get() {
            let _ = NET.try_with(|n| {
                let v = n.get() + delta;
                n.set(v);
                if delta > 0 {
                    let _ = PEAK_T.try_with(|p| {
                        if v > p.get() {
                            p.set(v);
                        }
                    });
                    if v > LIMIT.load(Ordering::Relaxed) as isize {
                        a.set(false);
                        emergency(v);
                    }
                }
            });
        }
    });
}

unsafe impl GlobalAlloc for Counting {
    unsafe fn alloc(&self, l: Layout) -> *mut u8 {
        track(l.size() as isize);
        System.alloc(l)
    }
    unsafe fn alloc_zeroed(&self, l: Layout) -> *mut u8 {
        track(l.size() as isize);
        System.alloc_zeroed(l)
    }
    unsafe fn dealloc(&self, p: *mut u8, l: Layout) {
        track(-(l.size() as isize));
        System.dealloc(p, l)
    }
    unsafe fn realloc(&self, p: *mut u8, l: Layout, new_size: usize) -> *mut u8 {
        track(new_size as isize - l.size() as isize);
        System.realloc(p, l, new_size)
    }
}

/// Never returns: the thread is inside the allocator, so neither a panic nor a null return would
/// give a usable verdict.
fn emergency(held: isize) {
    if EMERGENCY.swap(true, Ordering::SeqCst) {
        // another thread is already reporting; wait for the process to end
        loop {
            std::thread::sleep(std::time::Duration::from_secs(3600));
        }
    }
    let note = NOTE
        .try_with(|n| n.get())
        .ok()
        .flatten()
        .and_then(|p| std::panic::catch_unwind(std::panic::AssertUnwindSafe(|| unsafe { (*p)() })).ok())
        .unwrap_or_else(|| "(no case note registered for this call)".to_string());
    let (prop, tier) = match CONTEXT.get().cloned() {
        Some(c) => c,
        None => {
            // replay / explore runs: report and leave, no evidence file
            println!("memory guard: a single library call held {} MiB (limit {} MiB) and was still allocating; case: {}", held >> 20, limit_bytes() >> 20, note);
            use std::io::Write;
            let _ = std::io::stdout().flush();
            unsafe { libc::_exit(1) }
        }
    };
    let mut rep = crate::report::Report::new(&prop, tier);
    rep.exhaustive = false;
    rep.rule = "exploration stopped by the memory guard: one library call held more than the limit".into();
    rep.bounds = serde_json::json!({"memory_limit_bytes_per_call": limit_bytes()});
    rep.add_violation(crate::report::Violation {
        property: prop.clone(),
        key: "what=memory_limit".into(),
        message: format!(
            "a single library call held {} MiB (limit {} MiB) and was still allocating: it does not return an answer; case: {}",
            held >> 20,
            limit_bytes() >> 20,
            note
        ),
        case: serde_json::json!({"engine": "memory", "check": prop, "tier": tier.name(), "note": note, "limit_bytes": limit_bytes()}),
    });
    let code = rep.finish();
    use std::io::Write;
    let _ = std::io::stdout().flush();
    let _ = std::io::stderr().flush();
    unsafe { libc::_exit(if code == 0 { 1 } else { code }) }
}

/// RAII: the calling thread's allocations are counted from zero until the guard is dropped
pub struct Guard {
    prev_armed: bool,
    prev_net: isize,
}

impl Guard {
    pub fn enter() -> Guard {
        let prev_armed = ARMED.with(|a| a.replace(true));
        let prev_net = NET.with(|n| n.replace(0));
        Guard { prev_armed, prev_net }
    }
}

impl Drop for Guard {
    fn drop(&mut self) {
        ARMED.with(|a| a.set(self.prev_armed));
        NET.with(|n| n.set(self.prev_net));
        let p = PEAK_T.with(|p| p.replace(0));
        if p > 0 {
            PEAK.fetch_max(p as usize, Ordering::Relaxed);
        }
    }
}

struct RestoreNote(Option<*const NoteFn>);
impl Drop for RestoreNote {
    fn drop(&mut self) {
        NOTE.with(|n| n.set(self.0));
    }
}

/// Run `f` with `note` registered as the description of the case being explored on this thread;
/// it is evaluated only if the memory guard trips (so registering costs a pointer store).
pub fn with_note<R>(note: &dyn Fn() -> String, f: impl FnOnce() -> R) -> R {
    let p: *const (dyn Fn() -> String + '_) = note;
    // lifetime erased: the pointer is removed again before `note` goes out of scope
    let p: *const NoteFn = unsafe { std::mem::transmute(p) };
    let _r = RestoreNote(NOTE.with(|n| n.replace(Some(p))));
    f()
}

/// as `with_note`, unless a note is already registered on this thread
pub fn with_default_note<R>(note: &dyn Fn() -> String, f: impl FnOnce() -> R) -> R {
    if NOTE.with(|n| n.get()).is_some() {
        f()
    } else {
        with_note(note, f)
    }
}

/// limit the address space of a child process (crustabri binaries, stand-in SAT solvers)
pub fn limit_child(cmd: &mut std::process::Command) {
    use std::os::unix::process::CommandExt;
    let bytes = std::env::var("CVX_CHILD_MEM_LIMIT_MB").ok().and_then(|x| x.parse::<u64>().ok()).unwrap_or(3072) << 20;
    unsafe {
        cmd.pre_exec(move || {
            let r = libc::rlimit { rlim_cur: bytes, rlim_max: bytes };
            libc::setrlimit(libc::RLIMIT_AS, &r);
            Ok(())
        });
    }
}
