//! Evidence files, replay artefacts, known-findings file, exit protocol.

use serde_json::{json, Value};
use std::collections::BTreeMap;
use std::path::{Path, PathBuf};
use std::time::Instant;

/// root of the verification tree (the directory of the `check` script; /verif unless overridden)
pub fn verif_dir() -> String {
    std::env::var("CVX_VERIF_DIR").unwrap_or_else(|_| "/verif".to_string())
}

#[derive(Clone, Copy, Debug, PartialEq, Eq)]
pub enum Tier {
    Quick,
    Thorough,
}

impl Tier {
    pub fn name(self) -> &'static str {
        match self {
            Tier::Quick => "quick",
            Tier::Thorough => "thorough",
        }
    }
}

#[derive(Clone, Debug)]
pub struct Violation {
    pub property: String,
    /// classification key (call site / operation / symptom); matched against known_findings.txt
    pub key: String,
    pub message: String,
    /// everything needed to re-execute the case
    pub case: Value,
}

pub struct KnownFindings {
    /// (property, key) -> description
    pub open: BTreeMap<(String, String), String>,
}

impl KnownFindings {
    pub fn load() -> Self {
        let mut open = BTreeMap::new();
        let path = Path::new(&verif_dir()).join("known_findings.txt");
        if let Ok(text) = std::fs::read_to_string(path) {
            for line in text.lines() {
                let line = line.trim();
                if let Some(rest) = line.strip_prefix("open:") {
                    let mut prop = None;
                    let mut key = None;
                    let mut desc = vec![];
                    for w in rest.split_whitespace() {
                        if let Some(p) = w.strip_prefix("property=") {
                            if prop.is_none() {
                                prop = Some(p.to_string());
                                continue;
                            }
                        }
                        if let Some(k) = w.strip_prefix("key=") {
                            if key.is_none() {
                                key = Some(k.to_string());
                                continue;
                            }
                        }
                        desc.push(w);
                    }
                    if let (Some(p), Some(k)) = (prop, key) {
                        open.insert((p, k), desc.join(" "));
                    }
                }
            }
        }
        KnownFindings { open }
    }
}

/// Collector used by every check.
pub struct Report {
    pub property: String,
    pub tier: Tier,
    pub seed: i64,
    pub start: Instant,
    pub states: u64,
    pub transitions: u64,
    pub traces: u64,
    pub evaluations: u64,
    pub distinct_nontrivial: u64,
    pub rule: String,
    pub samples: Vec<Value>,
    pub exhaustive: bool,
    pub bounds: Value,
    pub extra: BTreeMap<String, Value>,
    pub assumptions: Vec<String>,
    pub violations: Vec<Violation>,
    pub n_violations: u64,
    pub machinery_errors: Vec<String>,
}

impl Report {
    pub fn new(property: &str, tier: Tier) -> Self {
        let seed = std::env::var("VERIF_SEED").ok().and_then(|s| s.parse().ok()).unwrap_or(0);
        Report {
            property: property.to_string(),
            tier,
            seed,
            start: Instant::now(),
            states: 0,
            transitions: 0,
            traces: 0,
            evaluations: 0,
            distinct_nontrivial: 0,
            rule: String::new(),
            samples: vec![],
            exhaustive: true,
            bounds: json!({}),
            extra: BTreeMap::new(),
            assumptions: vec![],
            violations: vec![],
            n_violations: 0,
            machinery_errors: vec![],
        }
    }

    pub fn add_violation(&mut self, v: Violation) {
        self.n_violations += 1;
        if self.violations.len() < 200 {
            self.violations.push(v);
        }
    }

    pub fn add_sample(&mut self, v: Value) {
        if self.samples.len() < 6 {
            self.samples.push(v);
        }
    }

    /// Write evidence, print VIOLATION / KNOWN-FINDING lines, return the process exit code.
    pub fn finish(mut self) -> i32 {
        let known = KnownFindings::load();
        let mut real: Vec<&Violation> = vec![];
        let mut known_hit: BTreeMap<(String, String), (u64, String)> = BTreeMap::new();
        for v in &self.violations {
            let k = (v.property.clone(), v.key.clone());
            if let Some(desc) = known.open.get(&k) {
                let e = known_hit.entry(k).or_insert((0, desc.clone()));
                e.0 += 1;
            } else {
                real.push(v);
            }
        }
        let wall = self.start.elapsed().as_secs_f64();
        // replay files for real violations: group by key, keep the first (smallest) of each key
        let mut seen_keys = std::collections::BTreeSet::new();
        let mut lines = vec![];
        let replay_dir = PathBuf::from(verif_dir()).join("replays").join(&self.property);
        for v in &real {
            if !seen_keys.insert(v.key.clone()) {
                continue;
            }
            let _ = std::fs::create_dir_all(&replay_dir);
            let name = format!("{}.json", sanitize(&v.key));
            let path = replay_dir.join(name);
            let body = json!({"property": v.property, "key": v.key, "message": v.message, "case": v.case});
            let _ = std::fs::write(&path, serde_json::to_string_pretty(&body).unwrap());
            lines.push(format!("VIOLATION property={} replay={}", v.property, path.display()));
            eprintln!("  {} [{}]: {}", v.property, v.key, v.message);
        }
        for ((p, _k), (n, desc)) in &known_hit {
            println!("KNOWN-FINDING: property={} {} (hit {} times in this run)", p, desc, n);
        }
        for l in &lines {
            println!("{}", l);
        }
        if self.samples.is_empty() {
            self.samples.push(json!("no case explored"));
        }
        let mut coverage = serde_json::Map::new();
        coverage.insert("states".into(), json!(self.states.max(1)));
        coverage.insert("transitions".into(), json!(self.transitions.max(1)));
        coverage.insert("traces_validated_against_impl".into(), json!(self.traces));
        coverage.insert("evaluations".into(), json!(self.evaluations.max(1)));
        coverage.insert("distinct_nontrivial".into(), json!(self.distinct_nontrivial));
        coverage.insert("rule".into(), json!(self.rule));
        coverage.insert("samples".into(), json!(self.samples));
        coverage.insert("exhaustive".into(), json!(self.exhaustive));
        coverage.insert("bounds".into(), self.bounds.clone());
        coverage.insert(
            "known_findings_hit".into(),
            json!(known_hit
                .iter()
                .map(|((p, k), (n, _))| json!({"property": p, "key": k, "hits": n}))
                .collect::<Vec<_>>()),
        );
        for (k, v) in &self.extra {
            coverage.insert(k.clone(), v.clone());
        }
        coverage.insert("memory_guard".into(), json!({"limit_bytes_per_library_call": crate::mem::limit_bytes(), "peak_bytes_in_one_library_call": crate::mem::peak_bytes()}));
        let n_real = real.len() as u64;
        let ev = json!({
            "property_id": self.property,
            "tier": self.tier.name(),
            "seed": self.seed,
            "level": "model_checking",
            "coverage": Value::Object(coverage),
            "assumptions": self.assumptions,
            "wall_s": wall,
            "violations": n_real,
        });
        let evdir = PathBuf::from(verif_dir()).join("evidence");
        let _ = std::fs::create_dir_all(&evdir);
        let evpath = evdir.join(format!("{}.json", self.property));
        std::fs::write(&evpath, serde_json::to_string_pretty(&ev).unwrap()).expect("cannot write evidence");
        if real.is_empty() && crate::choicesat::past_deadline() {
            self.machinery_errors.push("wall-clock budget exhausted before the exploration was complete (CVX_BUDGET_S): no verdict".into());
        }
        if real.is_empty() && known_hit.is_empty() && (self.traces == 0 || self.evaluations == 0) {
            self.machinery_errors.push("vacuous run: nothing was executed / evaluated".into());
        }
        if !self.machinery_errors.is_empty() && real.is_empty() {
            for m in &self.machinery_errors {
                eprintln!("MACHINERY-ERROR: {}", m);
            }
            return 2;
        }
        eprintln!(
            "[{} {}] states={} transitions={} executions={} evaluations={} nontrivial={} exhaustive={} violations={} known={} wall={:.1}s",
            self.property,
            self.tier.name(),
            self.states,
            self.transitions,
            self.traces,
            self.evaluations,
            self.distinct_nontrivial,
            self.exhaustive,
            real.len(),
            known_hit.len(),
            wall
        );
        if real.is_empty() {
            0
        } else {
            1
        }
    }
}

pub fn sanitize(s: &str) -> String {
    let mut out: String = s
        .chars()
        .map(|c| if c.is_ascii_alphanumeric() || c == '-' || c == '_' || c == '.' { c } else { '_' })
        .collect();
    if out.len() > 120 {
        out.truncate(120);
    }
    out
}
