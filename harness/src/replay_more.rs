//! Replay of the non-static engines.
use crate::choicesat::{replay, ExploreCfg};
use crate::dynamic::{history_str, judge_history, run_history, DynKind, Op};
use crate::replay::fv_from_name;
use crate::staticq::cadical_factory;
use serde_json::Value;

pub fn run(engine: &str, prop: &str, path: &str, v: &Value) -> i32 {
    let case = &v["case"];
    match engine {
        "dynamic" => {
            let kind = DynKind::from_name(case["solver"].as_str().unwrap()).expect("unknown solver");
            let ops: Vec<Op> = case["history"].as_array().unwrap().iter().map(Op::from_json).collect();
            let choices: Vec<usize> = case["choices"].as_array().map(|a| a.iter().map(|x| x.as_u64().unwrap() as usize).collect()).unwrap_or_default();
            let backend = case["backend"].as_str().unwrap_or("cadical");
            println!("case: {} history [{}] backend={} choices={:?}", kind.name(), history_str(&ops), backend, choices);
            let mut all = vec![];
            for i in 0..2 {
                let obs = if backend == "cadical" {
                    run_history(kind, &ops, cadical_factory())
                } else {
                    let cfg = ExploreCfg { fv: fv_from_name(case["free_var_policy"].as_str().unwrap_or("false")), faults: case["faults"].as_bool().unwrap_or(false), cap_alts: case["cap_alts"].as_u64().unwrap_or(16) as usize, ..ExploreCfg::default() };
                    let (r, _, div) = replay(&cfg, &choices, &mut |f| run_history(kind, &ops, f));
                    if let Some(d) = div {
                        eprintln!("MACHINERY-ERROR: {}", d);
                        return 2;
                    }
                    match r {
                        Ok(o) => o,
                        Err(p) => {
                            println!("run {}: panic outside a step: {}", i + 1, p);
                            vec![]
                        }
                    }
                };
                println!("run {}: observations {:?}", i + 1, obs.iter().map(|o| o.describe()).collect::<Vec<_>>());
                all.push(obs);
            }
            if all[0] != all[1] {
                eprintln!("MACHINERY-ERROR: the two replays differ (uncontrolled nondeterminism)");
                return 2;
            }
            match judge_history(kind, &ops, &all[0]) {
                Some(d) => {
                    println!("deviation: [{}] {}", d.key, d.message);
                    println!("VIOLATION property={} replay={}", prop, path);
                    1
                }
                None => {
                    println!("no deviation on the current tree");
                    0
                }
            }
        }
        other => crate::replay_third::run(other, prop, path, v),
    }
}
