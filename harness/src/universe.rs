//! Framework universes U(n), the structured family S, and "presentations" (ways the same graph is
//! handed to the code under test).

use crate::refmodel::Graph;
use crustabri::aa::{AAFramework, ArgumentSet};
use crustabri::io::{AspartixReader, Iccma23Reader, InstanceReader};
use crustabri::utils::LabelType;

/// All labelled digraphs (with self loops) on exactly n arguments.
pub fn all_graphs(n: usize) -> impl Iterator<Item = Graph> {
    (0..(1u64 << (n * n))).map(move |c| Graph::from_code(n, c))
}

/// U(<= n)
pub fn universe_upto(n: usize) -> Vec<Graph> {
    (0..=n).flat_map(all_graphs).collect()
}

pub fn permutations(n: usize) -> Vec<Vec<usize>> {
    fn rec(cur: &mut Vec<usize>, used: &mut Vec<bool>, n: usize, out: &mut Vec<Vec<usize>>) {
        if cur.len() == n {
            out.push(cur.clone());
            return;
        }
        for i in 0..n {
            if !used[i] {
                used[i] = true;
                cur.push(i);
                rec(cur, used, n, out);
                cur.pop();
                used[i] = false;
            }
        }
    }
    let mut out = vec![];
    rec(&mut vec![], &mut vec![false; n], n, &mut out);
    out
}

/// one representative (minimal code) per isomorphism class of U(n)
pub fn iso_representatives(n: usize) -> Vec<Graph> {
    let perms = permutations(n);
    all_graphs(n)
        .filter(|g| {
            let c = g.code();
            perms.iter().all(|p| g.permuted(p).code() >= c)
        })
        .collect()
}

/// iso representatives with at most `max_att` attacks (used for n = 5)
pub fn iso_representatives_sparse(n: usize, max_att: usize) -> Vec<Graph> {
    // enumerate attack subsets of size <= max_att, canonical = minimal code under permutations
    let perms = permutations(n);
    let cells: Vec<(usize, usize)> = (0..n).flat_map(|i| (0..n).map(move |j| (i, j))).collect();
    let mut out = std::collections::BTreeSet::new();
    fn rec(
        start: usize,
        left: usize,
        cur: &mut Vec<(usize, usize)>,
        cells: &[(usize, usize)],
        n: usize,
        perms: &[Vec<usize>],
        out: &mut std::collections::BTreeSet<u64>,
    ) {
        let g = Graph::new(n, cur);
        let c = perms.iter().map(|p| g.permuted(p).code()).min().unwrap();
        out.insert(c);
        if left == 0 {
            return;
        }
        for k in start..cells.len() {
            cur.push(cells[k]);
            rec(k + 1, left - 1, cur, cells, n, perms, out);
            cur.pop();
        }
    }
    rec(0, max_att, &mut vec![], &cells, n, &perms, &mut out);
    out.into_iter().map(|c| Graph::from_code(n, c)).collect()
}

/// One representative (minimal adjacency mask) per isomorphism class of the digraphs (loops allowed)
/// with `n` <= 8 nodes and at most `max_att` arcs, by level-wise augmentation: every class with k+1
/// arcs contains a graph obtained from a representative with k arcs by adding one arc.
pub fn iso_classes_augment(n: usize, max_att: usize) -> Vec<Graph> {
    use rayon::prelude::*;
    assert!(n <= 8);
    let perms = permutations(n);
    let tables: Vec<Vec<u8>> = perms.iter().map(|p| (0..n * n).map(|b| (p[b / n] * n + p[b % n]) as u8).collect()).collect();
    let canon = |m: u64| -> u64 {
        tables
            .iter()
            .map(|t| {
                let mut r = 0u64;
                let mut x = m;
                while x != 0 {
                    let b = x.trailing_zeros() as usize;
                    r |= 1u64 << t[b];
                    x &= x - 1;
                }
                r
            })
            .min()
            .unwrap()
    };
    let mut level: Vec<u64> = vec![0];
    let mut all: Vec<u64> = vec![0];
    for _ in 0..max_att.min(n * n) {
        let next: std::collections::BTreeSet<u64> = level
            .par_iter()
            .flat_map_iter(|&m| (0..n * n).filter(move |b| m >> b & 1 == 0).map(move |b| m | 1u64 << b))
            .map(|m| canon(m))
            .collect();
        level = next.into_iter().collect();
        all.extend(level.iter().cloned());
    }
    all.into_iter()
        .map(|m| {
            let att: Vec<(usize, usize)> = (0..n * n).filter(|b| m >> b & 1 == 1).map(|b| (b / n, b % n)).collect();
            Graph::new(n, &att)
        })
        .collect()
}

// ---------------------------------------------------------------------------------------------
// Structured family S

pub fn ring(n: usize) -> Graph {
    let att: Vec<_> = (0..n).map(|i| (i, (i + 1) % n)).collect();
    Graph::new(n, &att)
}

pub fn chain(n: usize) -> Graph {
    let att: Vec<_> = (0..n.saturating_sub(1)).map(|i| (i, i + 1)).collect();
    Graph::new(n, &att)
}

pub fn mutual_pairs(k: usize) -> Graph {
    let mut att = vec![];
    for i in 0..k {
        att.push((2 * i, 2 * i + 1));
        att.push((2 * i + 1, 2 * i));
    }
    Graph::new(2 * k, &att)
}

/// Target argument 0 with `n_attackers` attackers; attacker i has its own defender set given by
/// `defenders[i]` (indices into a shared pool of `pool` defender arguments); product of the
/// defender-set sizes is what the hybrid encoder compares with its threshold (32).
pub fn threshold_graph(defenders: &[Vec<usize>], pool: usize, variant: usize) -> Graph {
    let k = defenders.len();
    // layout: 0 = target, 1..=k attackers, k+1.. = pool
    let n = 1 + k + pool;
    let mut att = vec![];
    for (i, ds) in defenders.iter().enumerate() {
        att.push((1 + i, 0));
        for &d in ds {
            att.push((1 + k + d, 1 + i));
        }
    }
    match variant {
        0 => {}
        1 => {
            // first defender is attacked by the first attacker (cycle through a defender)
            if pool > 0 && k > 0 {
                att.push((1, 1 + k));
            }
        }
        2 => {
            // a defender attacks itself
            if pool > 0 {
                att.push((1 + k, 1 + k));
            }
        }
        3 => {
            // target attacks back its first attacker (target in a cycle)
            if k > 0 {
                att.push((0, 1));
            }
        }
        4 => {
            // two defenders attack each other
            if pool > 1 {
                att.push((1 + k, 2 + k));
                att.push((2 + k, 1 + k));
            }
        }
        _ => {}
    }
    Graph::new(n, &att)
}

/// (name, graph) members of the threshold sub-family: products 16, 25, 30, 32, 33, 36 ...
pub fn threshold_family() -> Vec<(String, Graph)> {
    let mut out = vec![];
    let shared = |k: usize, d: usize| -> Vec<Vec<usize>> { (0..k).map(|_| (0..d).collect()).collect() };
    let mut specs: Vec<(String, Vec<Vec<usize>>, usize)> = vec![
        ("prod16_4x2shared".into(), shared(4, 2), 2),
        ("prod32_5x2shared".into(), shared(5, 2), 2),
        ("prod64_6x2shared".into(), shared(6, 2), 2),
        ("prod27_3x3shared".into(), shared(3, 3), 3),
        ("prod81_4x3shared".into(), shared(4, 3), 3),
        ("prod36_2x6shared".into(), shared(2, 6), 6),
        ("prod25_2x5shared".into(), shared(2, 5), 5),
    ];
    // 5 and 6 defenders, partially shared: product 30
    specs.push(("prod30_5and6".into(), vec![(0..5).collect(), (0..6).collect()], 6));
    // 4 x 8 = 32 exactly
    specs.push(("prod32_4and8".into(), vec![(0..4).collect(), (0..8).collect()], 8));
    // 3 x 11 = 33
    specs.push(("prod33_3and11".into(), vec![(0..3).collect(), (0..11).collect()], 11));
    // 31 = prime: single attacker cannot reach it with 1 attacker unless 31 defenders; skip
    for (name, defs, pool) in specs {
        for variant in 0..5 {
            let g = threshold_graph(&defs, pool, variant);
            if g.n <= 14 {
                out.push((format!("{}_v{}", name, variant), g));
            }
        }
    }
    out
}

/// Composition family: irregular medium-size frameworks glued from small pieces. Pieces are the
/// isomorphism classes of the connected digraphs with 1-3 arguments (loops allowed).
/// level 0: every unordered pair of pieces, disjoint or joined by one attack between their first
///          arguments (either direction); every ordered triple over a 12-piece sub-menu, consecutive
///          pieces disjoint or joined first-argument to first-argument (4 patterns): <= 9 arguments;
/// level 1: pairs joined by one attack between ANY two of their arguments (either direction) as well.
pub fn composition_family(level: u8) -> Vec<(String, Graph)> {
    let mut pieces: Vec<Graph> = vec![];
    for n in 1..=3 {
        pieces.extend(iso_representatives(n).into_iter().filter(|g| g.is_connected()));
    }
    let mut out = vec![];
    let with_edge = |g: &Graph, e: (usize, usize)| {
        let mut att = g.att.clone();
        att.push(e);
        Graph::new(g.n, &att)
    };
    for i in 0..pieces.len() {
        for j in i..pieces.len() {
            let (p, q) = (&pieces[i], &pieces[j]);
            let u = p.union(q);
            out.push((format!("pair:{}+{}", i, j), u.clone()));
            for a in 0..p.n {
                for b in 0..q.n {
                    if level == 0 && (a != 0 || b != 0) {
                        continue;
                    }
                    out.push((format!("pair:{}+{}:{}>{}", i, j, a, p.n + b), with_edge(&u, (a, p.n + b))));
                    out.push((format!("pair:{}+{}:{}<{}", i, j, a, p.n + b), with_edge(&u, (p.n + b, a))));
                }
            }
        }
    }
    // sub-menu for triples: pieces spread over the list (first, every k-th, last)
    let step = (pieces.len() / 11).max(1);
    let mut menu: Vec<usize> = (0..pieces.len()).step_by(step).collect();
    menu.truncate(11);
    menu.push(pieces.len() - 1);
    for &i in &menu {
        for &j in &menu {
            for &k in &menu {
                let (p, q, r) = (&pieces[i], &pieces[j], &pieces[k]);
                let u = p.union(q).union(r);
                for pat in 0..4u8 {
                    let mut g = u.clone();
                    if pat & 1 == 1 {
                        g = with_edge(&g, (0, p.n));
                    }
                    if pat & 2 == 2 {
                        g = with_edge(&g, (p.n + q.n, p.n));
                    }
                    out.push((format!("triple:{}+{}+{}:{}", i, j, k, pat), g));
                }
            }
        }
    }
    out
}

/// Dense extremes: complete digraphs. With loops on 16 arguments the product of the defender-set
/// sizes of every argument is 16^16 = 2^64 exactly (the hybrid encoder's threshold test must stop
/// multiplying long before); without loops it is 15^16 (overflows 64 bits to a non-zero value).
pub fn dense_extremes() -> Vec<(String, Graph)> {
    let k = |n: usize, loops: bool| -> Graph {
        let att: Vec<(usize, usize)> = (0..n).flat_map(|i| (0..n).map(move |j| (i, j))).filter(|&(i, j)| loops || i != j).collect();
        Graph::new(n, &att)
    };
    vec![("K16_loops".into(), k(16, true)), ("K16".into(), k(16, false)), ("K11_loops".into(), k(11, true))]
}

/// number of clauses the exponential complete-semantics encoder needs for the worst argument
/// (product of the defender-set sizes), saturating
pub fn exp_clause_bound(g: &Graph) -> u128 {
    let mut indeg = vec![0u128; g.n];
    for &(_, b) in &g.att {
        indeg[b] += 1;
    }
    (0..g.n)
        .map(|a| g.att.iter().filter(|&&(_, t)| t == a).fold(1u128, |p, &(b, _)| p.saturating_mul(indeg[b].max(1))))
        .max()
        .unwrap_or(1)
}

/// The structured family S (without the large funnel): (name, graph), all with n <= 14.
pub fn family_s() -> Vec<(String, Graph)> {
    let mut out = threshold_family();
    // two components that BOTH take the auxiliary-variable side of the hybrid switch (the encoder
    // object is used once per component within one query), and one mixed pair
    {
        let shared = |k: usize, d: usize| -> Vec<Vec<usize>> { (0..k).map(|_| (0..d).collect()).collect() };
        let a = threshold_graph(&shared(5, 2), 2, 0);
        let b = threshold_graph(&shared(5, 2), 2, 2);
        let c = threshold_graph(&shared(4, 2), 2, 0);
        out.push(("prod32+prod32_selfdef".into(), a.union(&b)));
        out.push(("prod16+prod32".into(), c.union(&a)));
    }
    // k unattacked arguments attacking the same argument t, t -> u, u <-> v (several grounded members
    // defeat the same argument; an undecided part remains), and the same with v self-attacking
    for k in 2..=4usize {
        let t = k;
        let mut att: Vec<(usize, usize)> = (0..k).map(|i| (i, t)).collect();
        att.extend([(t, t + 1), (t + 1, t + 2), (t + 2, t + 1)]);
        out.push((format!("sources{}_tail", k), Graph::new(k + 3, &att)));
        att.push((t + 2, t + 2));
        out.push((format!("sources{}_tail_loop", k), Graph::new(k + 3, &att)));
    }
    for n in 3..=7 {
        out.push((format!("ring{}", n), ring(n)));
    }
    out.push(("pairs2".into(), mutual_pairs(2)));
    out.push(("pairs3".into(), mutual_pairs(3)));
    out.push(("chain5".into(), chain(5)));
    // a component with no stable extension next to one with several
    out.push(("ring3+pairs2".into(), ring(3).union(&mutual_pairs(2))));
    out.push(("selfloop+pairs2".into(), Graph::new(1, &[(0, 0)]).union(&mutual_pairs(2))));
    // odd ring attacked from a mutual pair (ideal/preferred interplay)
    out.push((
        "pair_into_ring3".into(),
        Graph::new(5, &[(0, 1), (1, 0), (1, 2), (2, 3), (3, 4), (4, 2)]),
    ));
    // classic: a<->b, a->c, b->c, c->d  (d skeptically preferred, not grounded)
    out.push(("floating".into(), Graph::new(4, &[(0, 1), (1, 0), (0, 2), (1, 2), (2, 3)])));
    // semi-stable != preferred example: a<->b, b->c, c->c? and self-attacker island
    out.push((
        "sst_vs_pr".into(),
        Graph::new(5, &[(0, 1), (1, 0), (1, 2), (2, 2), (3, 3), (0, 4), (4, 4)]),
    ));
    out
}

/// all two-component combinations U(<=a) (+) U(<=b), both parts non-empty
pub fn two_component_unions(a: usize, b: usize) -> Vec<Graph> {
    let mut out = vec![];
    for g1 in universe_upto(a).into_iter().filter(|g| g.n > 0) {
        for g2 in universe_upto(b).into_iter().filter(|g| g.n > 0) {
            out.push(g1.union(&g2));
        }
    }
    out
}

// ---------------------------------------------------------------------------------------------
// Presentations

#[derive(Clone, Copy, Debug, PartialEq, Eq, Hash)]
pub enum Presentation {
    /// ArgumentSet::new_with_labels + new_attack; labels 7*(i+1), ids 0..n
    Compact,
    /// an extra argument created first and removed: ids start at 1
    Offset,
    /// an extra argument attacking / attacked by everything inserted in the middle and removed, one
    /// attack added and removed (tombstones)
    Hole,
    /// through Iccma23Reader with every attack line twice (duplicate attack records)
    Dup,
    /// through AspartixReader with string labels, arguments declared in reverse order
    Apx,
}

pub const ALL_PRESENTATIONS: [Presentation; 5] = [
    Presentation::Compact,
    Presentation::Offset,
    Presentation::Hole,
    Presentation::Dup,
    Presentation::Apx,
];

impl Presentation {
    pub fn name(self) -> &'static str {
        match self {
            Presentation::Compact => "compact",
            Presentation::Offset => "offset",
            Presentation::Hole => "hole",
            Presentation::Dup => "dup",
            Presentation::Apx => "apx",
        }
    }
    pub fn from_name(s: &str) -> Option<Self> {
        ALL_PRESENTATIONS.iter().cloned().find(|p| p.name() == s)
    }
}

/// A framework object together with the label of each graph argument.
pub struct Built<T: LabelType> {
    pub af: AAFramework<T>,
    /// labels[i] = label of graph argument i
    pub labels: Vec<T>,
}

impl<T: LabelType> Built<T> {
    pub fn index_of(&self, label: &T) -> Option<usize> {
        self.labels.iter().position(|l| l == label)
    }
}

pub fn usize_label(i: usize) -> usize {
    7 * (i + 1)
}

pub fn build_usize(g: &Graph, p: Presentation) -> Built<usize> {
    match p {
        Presentation::Compact => {
            let labels: Vec<usize> = (0..g.n).map(usize_label).collect();
            let mut af = AAFramework::new_with_argument_set(ArgumentSet::new_with_labels(&labels));
            for &(a, b) in &g.att {
                af.new_attack(&labels[a], &labels[b]).unwrap();
            }
            Built { af, labels }
        }
        Presentation::Offset => {
            let labels: Vec<usize> = (0..g.n).map(usize_label).collect();
            let mut af = AAFramework::default();
            af.new_argument(1000);
            af.remove_argument(&1000).unwrap();
            for l in &labels {
                af.new_argument(*l);
            }
            for &(a, b) in &g.att {
                af.new_attack(&labels[a], &labels[b]).unwrap();
            }
            Built { af, labels }
        }
        Presentation::Hole => {
            let labels: Vec<usize> = (0..g.n).map(usize_label).collect();
            let mut af = AAFramework::default();
            let mid = g.n / 2;
            for l in &labels[..mid] {
                af.new_argument(*l);
            }
            af.new_argument(1000);
            for l in &labels[mid..] {
                af.new_argument(*l);
            }
            // the extra argument attacks and is attacked by everything, itself included
            af.new_attack(&1000, &1000).unwrap();
            for l in &labels {
                af.new_attack(&1000, l).unwrap();
                af.new_attack(l, &1000).unwrap();
            }
            // attacks of the graph in reverse order
            for &(a, b) in g.att.iter().rev() {
                af.new_attack(&labels[a], &labels[b]).unwrap();
            }
            // one attack added and removed (or removed and re-added when it is part of the graph)
            if g.n > 0 {
                let (a, b) = (0, g.n - 1);
                if g.has(a, b) {
                    af.remove_attack(&labels[a], &labels[b]).unwrap();
                    af.new_attack(&labels[a], &labels[b]).unwrap();
                } else {
                    af.new_attack(&labels[a], &labels[b]).unwrap();
                    af.remove_attack(&labels[a], &labels[b]).unwrap();
                }
            }
            af.remove_argument(&1000).unwrap();
            Built { af, labels }
        }
        Presentation::Dup => {
            let labels: Vec<usize> = (1..=g.n).collect();
            let mut text = format!("p af {}\n", g.n);
            for &(a, b) in &g.att {
                text.push_str(&format!("{} {}\n", a + 1, b + 1));
                text.push_str(&format!("{} {}\n", a + 1, b + 1));
            }
            let af = Iccma23Reader::default().read(&mut text.as_bytes()).unwrap();
            Built { af, labels }
        }
        Presentation::Apx => panic!("apx presentation has string labels"),
    }
}

pub fn build_apx(g: &Graph) -> Built<String> {
    let labels: Vec<String> = (0..g.n).map(|i| format!("a{}", i)).collect();
    let mut text = String::new();
    for l in labels.iter().rev() {
        text.push_str(&format!("arg({}).\n", l));
    }
    for &(a, b) in &g.att {
        text.push_str(&format!("att({},{}).\n", labels[a], labels[b]));
    }
    let af = AspartixReader::default().read(&mut text.as_bytes()).unwrap();
    Built { af, labels }
}

pub fn iccma_text(g: &Graph) -> String {
    let mut text = format!("p af {}\n", g.n);
    for &(a, b) in &g.att {
        text.push_str(&format!("{} {}\n", a + 1, b + 1));
    }
    text
}

pub fn apx_text(g: &Graph, labels: &[String]) -> String {
    let mut text = String::new();
    for l in labels.iter() {
        text.push_str(&format!("arg({}).\n", l));
    }
    for &(a, b) in &g.att {
        text.push_str(&format!("att({},{}).\n", labels[a], labels[b]));
    }
    text
}

/// Check that a built framework really represents the graph (harness self-check).
pub fn check_built<T: LabelType>(g: &Graph, b: &Built<T>) -> Result<(), String> {
    if b.af.n_arguments() != g.n {
        return Err(format!("built framework has {} arguments, graph {}", b.af.n_arguments(), g.n));
    }
    let mut seen = std::collections::BTreeSet::new();
    for att in b.af.iter_attacks() {
        let a = b.index_of(att.attacker().label()).ok_or("unknown attacker label")?;
        let t = b.index_of(att.attacked().label()).ok_or("unknown attacked label")?;
        seen.insert((a, t));
    }
    let want: std::collections::BTreeSet<_> = g.att.iter().cloned().collect();
    if seen != want {
        return Err(format!("built framework has attacks {:?}, graph {:?}", seen, want));
    }
    Ok(())
}
