//! Harness-owned all-SAT procedure (unit propagation + chronological branching), independent of
//! CaDiCaL. Enumerates all total models over a given variable list in lexicographic order
//! (false < true, first variable of the list most significant).

pub type Clause = Vec<i32>;

pub struct AllSat<'a> {
    clauses: &'a [Clause],
    vars: &'a [u32],
    assign: Vec<i8>, // index = var; 0 unassigned, 1 true, -1 false
    pub models: Vec<Vec<bool>>, // values in the order of `vars`
    cap: usize,
    pub capped: bool,
    pub nodes: u64,
}

impl<'a> AllSat<'a> {
    /// `vars` must contain every variable occurring in clauses or assumptions.
    pub fn run(clauses: &'a [Clause], assumptions: &[i32], vars: &'a [u32], cap: usize) -> AllSat<'a> {
        let maxv = vars.iter().cloned().max().unwrap_or(0) as usize;
        let mut s = AllSat {
            clauses,
            vars,
            assign: vec![0; maxv + 1],
            models: vec![],
            cap,
            capped: false,
            nodes: 0,
        };
        let mut trail = vec![];
        let mut ok = true;
        for &a in assumptions {
            let v = a.unsigned_abs() as usize;
            let val = if a > 0 { 1 } else { -1 };
            if s.assign[v] == 0 {
                s.assign[v] = val;
                trail.push(v);
            } else if s.assign[v] != val {
                ok = false;
            }
        }
        if ok && s.propagate(&mut trail) {
            s.search(0);
        }
        s
    }

    fn lit_val(&self, l: i32) -> i8 {
        let v = self.assign[l.unsigned_abs() as usize];
        if l > 0 {
            v
        } else {
            -v
        }
    }

    /// unit propagation to fixpoint; false on conflict. Assigned vars are pushed on `trail`.
    fn propagate(&mut self, trail: &mut Vec<usize>) -> bool {
        let clauses: &'a [Clause] = self.clauses;
        loop {
            let mut changed = false;
            for c in clauses.iter() {
                let mut n_unassigned = 0;
                let mut last = 0i32;
                let mut sat = false;
                for &l in c.iter() {
                    match self.lit_val(l) {
                        1 => {
                            sat = true;
                            break;
                        }
                        0 => {
                            n_unassigned += 1;
                            last = l;
                        }
                        _ => {}
                    }
                }
                if sat {
                    continue;
                }
                if n_unassigned == 0 {
                    return false;
                }
                if n_unassigned == 1 {
                    let v = last.unsigned_abs() as usize;
                    self.assign[v] = if last > 0 { 1 } else { -1 };
                    trail.push(v);
                    changed = true;
                }
            }
            if !changed {
                return true;
            }
        }
    }

    fn search(&mut self, from: usize) {
        self.nodes += 1;
        if self.models.len() >= self.cap {
            self.capped = true;
            return;
        }
        // first unassigned variable in list order
        let mut i = from;
        while i < self.vars.len() && self.assign[self.vars[i] as usize] != 0 {
            i += 1;
        }
        if i == self.vars.len() {
            let m = self.vars.iter().map(|&v| self.assign[v as usize] == 1).collect();
            self.models.push(m);
            return;
        }
        let v = self.vars[i] as usize;
        for val in [-1i8, 1] {
            let mut trail = vec![v];
            self.assign[v] = val;
            if self.propagate(&mut trail) {
                self.search(i + 1);
            }
            for t in trail {
                self.assign[t] = 0;
            }
            if self.capped {
                return;
            }
        }
    }
}

/// all models, over `vars`, of clauses + assumptions
pub fn all_models(clauses: &[Clause], assumptions: &[i32], vars: &[u32], cap: usize) -> (Vec<Vec<bool>>, bool) {
    let s = AllSat::run(clauses, assumptions, vars, cap);
    (s.models, s.capped)
}

pub fn is_sat(clauses: &[Clause], assumptions: &[i32], vars: &[u32]) -> bool {
    !AllSat::run(clauses, assumptions, vars, 1).models.is_empty()
}

/// sorted list of the variables occurring in clauses or assumptions
pub fn occurring_vars(clauses: &[Clause], assumptions: &[i32]) -> Vec<u32> {
    let mut s = std::collections::BTreeSet::new();
    for c in clauses {
        for &l in c {
            s.insert(l.unsigned_abs());
        }
    }
    for &l in assumptions {
        s.insert(l.unsigned_abs());
    }
    s.into_iter().collect()
}

/// Self-check against truth tables: all CNFs with <= 3 clauses of <= 2 literals over 3 variables
/// (plus the empty clause), each with every single-literal assumption.
pub fn self_check() -> Result<usize, String> {
    let lits: Vec<i32> = vec![1, -1, 2, -2, 3, -3];
    let mut menu: Vec<Clause> = vec![vec![]];
    for &a in &lits {
        menu.push(vec![a]);
        for &b in &lits {
            if a.abs() < b.abs() {
                menu.push(vec![a, b]);
            }
        }
    }
    menu.push(vec![1, 2, 3]);
    menu.push(vec![-1, -2, -3]);
    let vars = [1u32, 2, 3];
    let mut count = 0;
    let m = menu.len();
    for i in 0..m {
        for j in i..m {
            for k in j..m {
                let cnf = vec![menu[i].clone(), menu[j].clone(), menu[k].clone()];
                for assum in [vec![], vec![1], vec![-2], vec![3, -1]] {
                    let (models, _) = all_models(&cnf, &assum, &vars, usize::MAX);
                    let mut expected = vec![];
                    for bits in 0..8u32 {
                        // lexicographic with var 1 most significant
                        let val = |v: i32| bits >> (3 - v) & 1 == 1;
                        let lit = |l: i32| if l > 0 { val(l) } else { !val(-l) };
                        if cnf.iter().all(|c| c.iter().any(|&l| lit(l))) && assum.iter().all(|&l| lit(l)) {
                            expected.push(vec![val(1), val(2), val(3)]);
                        }
                    }
                    if models != expected {
                        return Err(format!(
                            "DPLL self-check failed on cnf {:?} assumptions {:?}: got {:?}, expected {:?}",
                            cnf, assum, models, expected
                        ));
                    }
                    count += 1;
                }
            }
        }
    }
    Ok(count)
}
