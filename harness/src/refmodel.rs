//! Reference model of Dung semantics on bit masks ("boring on purpose").
//! Everything is computed by enumeration of all subsets of the argument set.

use std::collections::BTreeSet;

#[derive(Clone, Copy, Debug, PartialEq, Eq, Hash, PartialOrd, Ord)]
pub enum Sem {
    GR,
    CO,
    PR,
    ST,
    SST,
    STG,
    ID,
}

pub const ALL_SEMS: [Sem; 7] = [Sem::GR, Sem::CO, Sem::PR, Sem::ST, Sem::SST, Sem::STG, Sem::ID];

impl Sem {
    pub fn name(self) -> &'static str {
        match self {
            Sem::GR => "GR",
            Sem::CO => "CO",
            Sem::PR => "PR",
            Sem::ST => "ST",
            Sem::SST => "SST",
            Sem::STG => "STG",
            Sem::ID => "ID",
        }
    }
}

/// A finite digraph on arguments 0..n (n <= 24), attacks as a sorted set of pairs.
#[derive(Clone, Debug, PartialEq, Eq, Hash, PartialOrd, Ord)]
pub struct Graph {
    pub n: usize,
    pub att: Vec<(usize, usize)>,
}

impl Graph {
    pub fn new(n: usize, att: &[(usize, usize)]) -> Self {
        let s: BTreeSet<(usize, usize)> = att.iter().cloned().collect();
        for &(a, b) in &s {
            assert!(a < n && b < n);
        }
        Graph { n, att: s.into_iter().collect() }
    }

    /// graph number `code` of U(n): bit i*n+j set <=> attack i -> j
    pub fn from_code(n: usize, code: u64) -> Self {
        let mut att = vec![];
        for i in 0..n {
            for j in 0..n {
                if code >> (i * n + j) & 1 == 1 {
                    att.push((i, j));
                }
            }
        }
        Graph { n, att }
    }

    pub fn code(&self) -> u64 {
        let mut c = 0u64;
        for &(i, j) in &self.att {
            c |= 1 << (i * self.n + j);
        }
        c
    }

    pub fn has(&self, a: usize, b: usize) -> bool {
        self.att.binary_search(&(a, b)).is_ok()
    }

    /// disjoint union; arguments of `other` are shifted by self.n
    pub fn union(&self, other: &Graph) -> Graph {
        let mut att = self.att.clone();
        att.extend(other.att.iter().map(|&(a, b)| (a + self.n, b + self.n)));
        Graph::new(self.n + other.n, &att)
    }

    /// rename arguments: new index of old argument i is perm[i]
    pub fn permuted(&self, perm: &[usize]) -> Graph {
        let att: Vec<_> = self.att.iter().map(|&(a, b)| (perm[a], perm[b])).collect();
        Graph::new(self.n, &att)
    }

    /// connected components (weakly), each as a bit mask
    pub fn components(&self) -> Vec<u32> {
        let mut comp = vec![usize::MAX; self.n];
        let mut res = vec![];
        for s in 0..self.n {
            if comp[s] != usize::MAX {
                continue;
            }
            let id = res.len();
            let mut mask = 0u32;
            let mut stack = vec![s];
            comp[s] = id;
            while let Some(x) = stack.pop() {
                mask |= 1 << x;
                for &(a, b) in &self.att {
                    let y = if a == x {
                        b
                    } else if b == x {
                        a
                    } else {
                        continue;
                    };
                    if comp[y] == usize::MAX {
                        comp[y] = id;
                        stack.push(y);
                    }
                }
            }
            res.push(mask);
        }
        res
    }

    pub fn is_connected(&self) -> bool {
        self.components().len() <= 1
    }

    /// induced subgraph on the arguments of `mask`, re-indexed compactly in increasing order;
    /// returns the graph and the map new index -> old index
    pub fn induced(&self, mask: u32) -> (Graph, Vec<usize>) {
        let olds: Vec<usize> = (0..self.n).filter(|i| mask >> i & 1 == 1).collect();
        let mut new_of = vec![usize::MAX; self.n];
        for (k, &o) in olds.iter().enumerate() {
            new_of[o] = k;
        }
        let att: Vec<_> = self
            .att
            .iter()
            .filter(|&&(a, b)| mask >> a & 1 == 1 && mask >> b & 1 == 1)
            .map(|&(a, b)| (new_of[a], new_of[b]))
            .collect();
        (Graph::new(olds.len(), &att), olds)
    }

    pub fn describe(&self) -> String {
        let atts: Vec<String> = self.att.iter().map(|(a, b)| format!("{}->{}", a, b)).collect();
        format!("n={} att=[{}]", self.n, atts.join(","))
    }

    pub fn to_json(&self) -> serde_json::Value {
        serde_json::json!({"n": self.n, "attacks": self.att.iter().map(|(a,b)| vec![*a,*b]).collect::<Vec<_>>()})
    }

    pub fn from_json(v: &serde_json::Value) -> Graph {
        let n = v["n"].as_u64().unwrap() as usize;
        let att: Vec<(usize, usize)> = v["attacks"]
            .as_array()
            .unwrap()
            .iter()
            .map(|p| (p[0].as_u64().unwrap() as usize, p[1].as_u64().unwrap() as usize))
            .collect();
        Graph::new(n, &att)
    }
}

/// Precomputed masks for the reference semantics.
pub struct Ref {
    pub n: usize,
    pub all: u32,
    /// attackers of each argument
    pub atk: Vec<u32>,
    /// arguments attacked by each argument
    pub tgt: Vec<u32>,
}

impl Ref {
    pub fn new(g: &Graph) -> Self {
        assert!(g.n <= 24, "reference model limited to 24 arguments");
        let mut atk = vec![0u32; g.n];
        let mut tgt = vec![0u32; g.n];
        for &(a, b) in &g.att {
            atk[b] |= 1 << a;
            tgt[a] |= 1 << b;
        }
        Ref { n: g.n, all: if g.n == 0 { 0 } else { (1u32 << g.n) - 1 }, atk, tgt }
    }

    /// S+ : everything attacked by a member of S
    pub fn plus(&self, s: u32) -> u32 {
        let mut r = 0;
        for a in 0..self.n {
            if s >> a & 1 == 1 {
                r |= self.tgt[a];
            }
        }
        r
    }

    pub fn range(&self, s: u32) -> u32 {
        s | self.plus(s)
    }

    pub fn conflict_free(&self, s: u32) -> bool {
        self.plus(s) & s == 0
    }

    /// arguments all of whose attackers are attacked by S
    pub fn defended(&self, s: u32) -> u32 {
        let p = self.plus(s);
        let mut r = 0;
        for a in 0..self.n {
            if self.atk[a] & !p == 0 {
                r |= 1 << a;
            }
        }
        r
    }

    pub fn admissible(&self, s: u32) -> bool {
        self.conflict_free(s) && s & !self.defended(s) == 0
    }

    pub fn complete(&self, s: u32) -> bool {
        self.conflict_free(s) && s == self.defended(s)
    }

    pub fn stable(&self, s: u32) -> bool {
        self.conflict_free(s) && self.range(s) == self.all
    }

    fn subsets(&self) -> impl Iterator<Item = u32> {
        0..(1u32 << self.n)
    }

    pub fn all_conflict_free(&self) -> Vec<u32> {
        self.subsets().filter(|&s| self.conflict_free(s)).collect()
    }

    pub fn all_admissible(&self) -> Vec<u32> {
        self.subsets().filter(|&s| self.admissible(s)).collect()
    }

    pub fn all_complete(&self) -> Vec<u32> {
        self.subsets().filter(|&s| self.complete(s)).collect()
    }

    pub fn all_stable(&self) -> Vec<u32> {
        self.subsets().filter(|&s| self.stable(s)).collect()
    }

    /// least fixed point of the characteristic function, by iteration from the empty set
    pub fn grounded(&self) -> u32 {
        let mut s = 0u32;
        loop {
            let d = self.defended(s);
            // F is monotone; from the empty set the iteration is increasing
            if d == s {
                return s;
            }
            s = d;
        }
    }

    fn maximal_wrt<F: Fn(u32) -> u32>(sets: &[u32], key: F) -> Vec<u32> {
        sets.iter()
            .cloned()
            .filter(|&s| {
                let ks = key(s);
                !sets.iter().any(|&t| {
                    let kt = key(t);
                    kt != ks && kt & ks == ks
                })
            })
            .collect()
    }

    pub fn preferred(&self) -> Vec<u32> {
        Self::maximal_wrt(&self.all_admissible(), |s| s)
    }

    pub fn semi_stable(&self) -> Vec<u32> {
        Self::maximal_wrt(&self.all_complete(), |s| self.range(s))
    }

    pub fn stage(&self) -> Vec<u32> {
        Self::maximal_wrt(&self.all_conflict_free(), |s| self.range(s))
    }

    pub fn ideal(&self) -> u32 {
        let pr = self.preferred();
        let inter = pr.iter().fold(self.all, |acc, &p| acc & p);
        let cands: Vec<u32> = self
            .all_admissible()
            .into_iter()
            .filter(|&s| s & !inter == 0)
            .collect();
        let maxi = Self::maximal_wrt(&cands, |s| s);
        assert_eq!(maxi.len(), 1, "ideal extension must be unique");
        maxi[0]
    }

    pub fn extensions(&self, sem: Sem) -> Vec<u32> {
        match sem {
            Sem::GR => vec![self.grounded()],
            Sem::CO => self.all_complete(),
            Sem::PR => self.preferred(),
            Sem::ST => self.all_stable(),
            Sem::SST => self.semi_stable(),
            Sem::STG => self.stage(),
            Sem::ID => vec![self.ideal()],
        }
    }
}

/// All extension families of one graph, computed once.
pub struct RefAnswers {
    pub g: Graph,
    pub fam: Vec<Vec<u32>>, // indexed by Sem as usize
}

impl RefAnswers {
    pub fn new(g: &Graph) -> Self {
        let r = Ref::new(g);
        let fam = ALL_SEMS.iter().map(|&s| r.extensions(s)).collect();
        RefAnswers { g: g.clone(), fam }
    }

    pub fn ext(&self, sem: Sem) -> &[u32] {
        &self.fam[sem as usize]
    }

    /// credulous acceptance of a disjunction of arguments (mask)
    pub fn credulous(&self, sem: Sem, args: u32) -> bool {
        self.ext(sem).iter().any(|&e| e & args != 0)
    }

    /// skeptical acceptance of a disjunction of arguments (mask)
    pub fn skeptical(&self, sem: Sem, args: u32) -> bool {
        self.ext(sem).iter().all(|&e| e & args != 0)
    }
}

/// Cross-checks between independent formulations; run at start-up of every check.
pub fn self_check() -> Result<usize, String> {
    let mut n_checked = 0;
    for n in 0..=3usize {
        for code in 0..(1u64 << (n * n)) {
            let g = Graph::from_code(n, code);
            let r = Ref::new(&g);
            let co = r.all_complete();
            let pr = r.preferred();
            let st = r.all_stable();
            let sst = r.semi_stable();
            let stg = r.stage();
            let gr = r.grounded();
            let id = r.ideal();
            let err = |m: &str| Err(format!("reference self-check failed on {}: {}", g.describe(), m));
            if co.is_empty() || pr.is_empty() || sst.is_empty() || stg.is_empty() {
                return err("a family that must be non-empty is empty");
            }
            // GR = intersection of complete = least complete
            let inter = co.iter().fold(r.all, |a, &c| a & c);
            if inter != gr || !co.contains(&gr) {
                return err("GR != intersection of CO");
            }
            // PR = maximal complete
            let maxco = Ref::maximal_wrt(&co, |s| s);
            if maxco != pr {
                return err("PR != maximal CO");
            }
            for s in &st {
                if !sst.contains(s) || !pr.contains(s) || !stg.contains(s) {
                    return err("ST not within SST/PR/STG");
                }
            }
            if !st.is_empty() && (sst != st || stg != st) {
                return err("ST non-empty but SST/STG differ from ST");
            }
            for s in &sst {
                if !pr.contains(s) {
                    return err("SST not within PR");
                }
            }
            if !co.contains(&id) {
                return err("ID not complete");
            }
            if gr & !id != 0 {
                return err("GR not within ID");
            }
            for p in &pr {
                if id & !p != 0 {
                    return err("ID not within every PR");
                }
            }
            // stable by the textbook alternative: cf and attacks every outsider
            for s in 0..(1u32 << n) {
                let alt = r.conflict_free(s) && (0..n).all(|a| s >> a & 1 == 1 || r.atk[a] & s != 0);
                if alt != r.stable(s) {
                    return err("two formulations of stable differ");
                }
                // admissible alt: cf and each attacker of a member is attacked by S
                let alt_adm = r.conflict_free(s)
                    && (0..n).filter(|a| s >> a & 1 == 1).all(|a| {
                        (0..n).filter(|b| r.atk[a] >> b & 1 == 1).all(|b| r.atk[b] & s != 0)
                    });
                if alt_adm != r.admissible(s) {
                    return err("two formulations of admissible differ");
                }
            }
            n_checked += 1;
        }
    }
    Ok(n_checked)
}

pub fn mask_to_vec(m: u32) -> Vec<usize> {
    (0..32).filter(|i| m >> i & 1 == 1).collect()
}
