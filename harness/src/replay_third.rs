//! Replay of further engines (added with them).
use serde_json::Value;

pub fn run(engine: &str, _prop: &str, _path: &str, _v: &Value) -> i32 {
    eprintln!("replay: unknown engine {:?}", engine);
    2
}
