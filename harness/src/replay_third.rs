//! Replay of the remaining engines: every case is re-executed twice on the current tree.
use crate::refmodel::{Graph, RefAnswers, Sem, ALL_SEMS};
use crate::staticq::{QKind, Query};
use crate::universe::Presentation;
use serde_json::Value;

fn verdict(prop: &str, path: &str, runs: Vec<Option<String>>) -> i32 {
    for (i, r) in runs.iter().enumerate() {
        match r {
            Some(m) => println!("run {}: deviation: {}", i + 1, m),
            None => println!("run {}: no deviation", i + 1),
        }
    }
    if runs.len() == 2 && runs[0].is_some() != runs[1].is_some() {
        eprintln!("MACHINERY-ERROR: the two replays differ (uncontrolled nondeterminism)");
        return 2;
    }
    if runs.iter().any(|r| r.is_some()) {
        println!("VIOLATION property={} replay={}", prop, path);
        1
    } else {
        println!("no deviation on the current tree");
        0
    }
}

fn sem_of(name: &str) -> Sem {
    ALL_SEMS.iter().cloned().find(|s| s.name() == name).expect("unknown semantics")
}

fn kind_of(name: &str) -> QKind {
    match name {
        "SE" => QKind::SE,
        "DC" => QKind::DC,
        _ => QKind::DS,
    }
}

pub fn run(engine: &str, prop: &str, path: &str, v: &Value) -> i32 {
    let case = &v["case"];
    let key = v["key"].as_str().unwrap_or("");
    let twice = |f: &dyn Fn() -> Option<String>| vec![f(), f()];
    match engine {
        "store" => {
            use crate::checks::c12::{check_last_step, Init, SOp};
            let hist: Vec<SOp> = case["history"].as_array().unwrap().iter().map(SOp::from_json).collect();
            let init = Init::from_name(case["init"].as_str().unwrap());
            let is_string = case["label_type"].as_str() == Some("String");
            println!("case: AAFramework<{}> from {} history {:?}", case["label_type"], init.name(), hist.iter().map(|o| o.short()).collect::<Vec<_>>());
            let n = hist.iter().map(|o| match *o {
                SOp::NewArg(a) | SOp::RemArg(a) => a,
                SOp::NewAtt(a, b) | SOp::RemAtt(a, b) => a.max(b),
            }).max().unwrap_or(1).max(1) as usize + 1;
            let runs = twice(&|| {
                // every prefix is checked (observers after every step)
                for k in 0..=hist.len() {
                    let r = if is_string {
                        let labels: Vec<String> = ["a", "b", "c", "d"].iter().take(n.max(2)).map(|s| s.to_string()).collect();
                        check_last_step("String", &labels, init, &hist[..k])
                    } else {
                        let labels: Vec<usize> = (1..=n.max(2)).collect();
                        check_last_step("usize", &labels, init, &hist[..k])
                    };
                    if let Err(v) = r {
                        return Some(v.message);
                    }
                }
                None
            });
            verdict(prop, path, runs)
        }
        "reader" => {
            use crate::checks::c13::{check_input, Format};
            let bytes: Vec<u8> = case["bytes"].as_array().unwrap().iter().map(|b| b.as_u64().unwrap() as u8).collect();
            let fmt = if case["format"].as_str() == Some("apx") { Format::Apx } else { Format::Iccma };
            println!("case: {} reader, input {:?}", fmt.name(), String::from_utf8_lossy(&bytes));
            let probes: Vec<&str> = if fmt == Format::Apx { vec!["a", "b", "a1", "_", "c", "1a", "", "arg"] } else { vec!["0", "1", "2", "3", "4", "-1", "x", ""] };
            verdict(prop, path, twice(&|| check_input(fmt, &bytes, &probes).err().map(|(w, m)| format!("[{}] {}", w, m))))
        }
        "long_session_external" => {
            let name = case["session"].as_str().unwrap_or("").to_string();
            let th = case["thorough"].as_bool().unwrap_or(false);
            println!("case: scripted session {} through ExternalSatSolver with the stand-in program logging every instance", name);
            verdict(prop, path, twice(&|| {
                let acc = crate::checks::c16::long_sessions_external_named(th, Some(&name));
                acc.violations.into_iter().next().map(|(_, (_, v))| v.message)
            }))
        }
        "check_cmd" => {
            use crate::checks::c13::{check_cmd_one, Format};
            let bytes: Vec<u8> = case["bytes"].as_array().unwrap().iter().map(|b| b.as_u64().unwrap() as u8).collect();
            let fmt = if case["format"].as_str() == Some("apx") { Format::Apx } else { Format::Iccma };
            println!("case: `crustabri check` on the {} file {:?}", fmt.name(), String::from_utf8_lossy(&bytes));
            verdict(prop, path, twice(&|| check_cmd_one(fmt, &bytes, 0).err().map(|(w, m)| format!("[{}] {}", w, m))))
        }
        "encoding" => {
            use crate::checks::c10::{check_one, check_one_pres, make, ALL_ENCS};
            let g = Graph::from_json(&case["graph"]);
            let name = case["encoder"].as_str().unwrap();
            let e = *ALL_ENCS.iter().find(|e| e.name() == name).expect("unknown encoder");
            let range = case["range"].as_bool().unwrap();
            println!("case: encoder {} range={} on {} (a fresh encoder object; first another framework is encoded with it, as in the sweep)", name, range, g.describe());
            verdict(prop, path, twice(&|| {
                let enc = make(e);
                // re-use as in the sweep: encode a threshold framework first
                let warm = crate::universe::threshold_family().into_iter().find(|(n, _)| n == "prod32_5x2shared_v0").unwrap().1;
                let _ = check_one(&warm, e, enc.as_ref(), range);
                check_one_pres(&g, e, enc.as_ref(), range, case["dup"].as_u64().unwrap_or(0) as u8).err().map(|(w, m)| format!("[{}] {}", w, m))
            }))
        }
        "equivalence" => {
            use crate::checks::c19::{check_graph, check_graph_reversed};
            let g = Graph::from_json(&case["graph"]);
            let p = case["presentation"].as_str().unwrap();
            println!("case: EquivalencyComputer on {} [{}]", g.describe(), p);
            verdict(prop, path, twice(&|| {
                let r = match p {
                    "dup" => check_graph(&g, Presentation::Dup),
                    "compact" => check_graph(&g, Presentation::Compact),
                    _ => check_graph_reversed(&g),
                };
                r.err().map(|(w, m)| format!("[{}] {}", w, m))
            }))
        }
        "satobject" => {
            use crate::checks::c15::{run_history, BackendKind, SatOp};
            let hist: Vec<SatOp> = case["history"].as_array().unwrap().iter().map(SatOp::from_json).collect();
            let b = BackendKind::from_name(case["backend"].as_str().unwrap_or(""));
            println!("case: {} history {:?}", b.name(), hist.iter().map(|o| o.short()).collect::<Vec<_>>());
            verdict(prop, path, twice(&|| run_history(b, &hist).err().map(|(s, w, m)| format!("step {} [{}] {}", s + 1, w, m))))
        }
        "reply" => {
            use crate::checks::c16::{feed_reply, judge_reply};
            let bytes: Vec<u8> = case["bytes"].as_array().unwrap().iter().map(|b| b.as_u64().unwrap() as u8).collect();
            println!("case: reply {:?} for a 2-variable instance", String::from_utf8_lossy(&bytes));
            verdict(prop, path, twice(&|| {
                let o = feed_reply(&bytes);
                println!("  observed {:?}", o);
                judge_reply(&bytes, &o).map(|(w, m)| format!("[{}] {}", w, m))
            }))
        }
        "exchange" => {
            use crate::checks::c16_pipes::{expected_kinds, run_with_watchdog};
            let child = case["child"].as_str().unwrap().to_string();
            let pad = case["reply_bytes"].as_u64().unwrap() as usize;
            let big = case["big_instance"].as_bool().unwrap_or(false);
            println!("case: exchange with a child behaving '{}', reply {} bytes, big instance {}", child, pad, big);
            verdict(prop, path, twice(&|| {
                let exe = std::env::current_exe().unwrap();
                let mut cmd = std::process::Command::new(exe);
                cmd.args(["c16-scenario", &child, &pad.to_string(), if big { "1" } else { "0" }, &case["stderr_bytes"].as_u64().unwrap_or(0).to_string()]);
                let (done, kind, secs) = run_with_watchdog(cmd, std::time::Duration::from_secs(10));
                println!("  terminated={} result={} after {:.2}s", done, kind, secs);
                if !done {
                    Some("the call did not return within 10 s".into())
                } else if !expected_kinds(&child).contains(&kind.as_str()) {
                    Some(format!("returned {}, expected one of {:?}", kind, expected_kinds(&child)))
                } else {
                    None
                }
            }))
        }
        "external" => {
            let g = Graph::from_json(&case["graph"]);
            println!("case: every problem on {} through the external backend (instances parsed strictly, answers judged)", g.describe());
            verdict(prop, path, twice(&|| {
                let acc = crate::checks::c16::external_sweep(&[("replay".to_string(), g.clone())], "replay_ext");
                acc.violations.into_iter().find(|((p, _), _)| p == prop).map(|(_, (_, v))| v.message)
            }))
        }
        "matrix" | "order" => {
            let g = Graph::from_json(&case["graph"]);
            let pres = Presentation::from_name(case["presentation"].as_str().unwrap_or("compact")).unwrap_or(Presentation::Compact);
            println!("case: configuration matrix and query sequences on {} [{}]", g.describe(), pres.name());
            verdict(prop, path, twice(&|| {
                let v = crate::checks::c06::replay_graph(&g, pres, if g.n <= 2 { 3 } else { 2 }, g.n <= 2);
                v.into_iter().find(|(k, _)| k == key).or_else(|| None).map(|(_, m)| m)
            }))
        }
        "presentation" | "union" => {
            let g = Graph::from_json(&case["graph"]);
            println!("case: all presentations and unions of {}", g.describe());
            verdict(prop, path, twice(&|| crate::checks::c11::replay_small(&g).into_iter().next().map(|(k, m)| format!("[{}] {}", k, m))))
        }
        "large" => {
            let fam = case["family"].as_str().unwrap().to_string();
            let size = case["size"].as_u64().unwrap() as usize;
            println!("case: {}({}) in all presentations", fam, size);
            verdict(prop, path, twice(&|| crate::checks::c11::replay_large(&fam, size).into_iter().next().map(|(k, m)| format!("[{}] {}", k, m))))
        }
        "threshold_union" => {
            println!("case: unions of hybrid-threshold frameworks under every encoder");
            verdict(prop, path, twice(&|| crate::checks::c11::replay_threshold().into_iter().next().map(|(k, m)| format!("[{}] {}", k, m))))
        }
        "cli" => {
            use crate::checks::c05::{has_answer_line, judge_valid, run as run_proc, Invocation};
            let bin: &'static str = if case["bin"].as_str().unwrap().ends_with("crustabri_iccma23") { crate::checks::c05::bin_iccma() } else { crate::checks::c05::bin_solve() };
            let args: Vec<String> = case["args"].as_array().unwrap().iter().map(|a| a.as_str().unwrap().to_string()).collect();
            if let (Some(f), Some(content)) = (case["file"].as_str(), case["file_content"].as_array()) {
                let bytes: Vec<u8> = content.iter().map(|b| b.as_u64().unwrap() as u8).collect();
                if let Some(parent) = std::path::Path::new(f).parent() {
                    let _ = std::fs::create_dir_all(parent);
                }
                let _ = std::fs::write(f, bytes);
            }
            let inv = Invocation { bin, args };
            println!("case: {} {}", bin, inv.args.join(" "));
            let exp = &case["expect"];
            verdict(prop, path, twice(&|| {
                let r = run_proc(&inv);
                println!("  exit {:?} stdout {:?}", r.code, r.stdout);
                let kind = exp["kind"].as_str().unwrap_or("malformed");
                if kind == "big" {
                    // judged against the graph of its family: the big-instance family is re-run as a whole
                    return crate::checks::c05::big_instances_messages(true).into_iter().next();
                }
                if kind == "malformed" || (kind == "valid_or_error" && r.code != Some(0)) || prop == "C17" {
                    if r.code == Some(0) {
                        return Some("exit status 0".into());
                    }
                    return has_answer_line(&r.stdout).map(|l| format!("answer line {:?} printed", l));
                }
                let g = Graph::from_json(&exp["graph"]);
                let ra = RefAnswers::new(&g);
                judge_valid(&ra, kind_of(exp["qkind"].as_str().unwrap()), sem_of(exp["sem"].as_str().unwrap()), exp["arg"].as_u64().map(|x| x as usize), exp["cert"].as_bool().unwrap(), exp["iccma"].as_bool().unwrap(), exp["logging"].as_bool().unwrap(), &r).err().map(|(w, m)| format!("[{}] {}", w, m))
            }))
        }
        "external_fault" => {
            use crate::checks::c16::external_factory;
            let g = Graph::from_json(&case["graph"]);
            let q = Query::from_json(&case["query"]);
            let mode = case["mode"].as_str().unwrap().to_string();
            let k = case["call"].as_u64().unwrap();
            println!("case: {} {:?} on {} with the external solver failing ({}) at call {}", q.problem(), q.args, g.describe(), mode, k);
            verdict(prop, path, twice(&|| {
                let b = crate::universe::build_usize(&g, Presentation::Compact);
                let dir = crate::checks::c16::scratch_dir("replay_fault");
                let cnt = dir.join("cnt.txt");
                let mark = dir.join("mark.txt");
                let _ = std::fs::remove_file(&cnt);
                let _ = std::fs::remove_file(&mark);
                let opts = vec![format!("cnt={}", cnt.display()), format!("mark={}", mark.display()), format!("fail={}@{}", mode, k)];
                let r = crate::choicesat::catch(|| crate::staticq::run_query(&b, &q, external_factory(opts)));
                if !mark.exists() {
                    println!("  the failure was not reached");
                    return None;
                }
                r.ok().map(|o| format!("the query returned {}", o.describe()))
            }))
        }
        "dynamic_fault" => {
            use crate::choicesat::{replay, ExploreCfg};
            use crate::dynamic::{history_str, run_history, DynKind, Op, StepObs};
            let kind = DynKind::from_name(case["solver"].as_str().unwrap()).expect("unknown solver");
            let ops: Vec<Op> = case["history"].as_array().unwrap().iter().map(Op::from_json).collect();
            let choices: Vec<usize> = case["choices"].as_array().unwrap().iter().map(|x| x.as_u64().unwrap() as usize).collect();
            println!("case: {} history [{}], the last recorded SAT call answers Unknown (choices {:?})", kind.name(), history_str(&ops), choices);
            verdict(prop, path, twice(&|| {
                let cfg = ExploreCfg { faults: true, cap_alts: 16, ..ExploreCfg::default() };
                let (r, calls, div) = replay(&cfg, &choices, &mut |f| run_history(kind, &ops, f));
                if let Some(d) = div {
                    eprintln!("MACHINERY-ERROR: {}", d);
                    std::process::exit(2);
                }
                if !calls.iter().any(|c| c.fault) {
                    println!("  the fault position was not reached");
                    return None;
                }
                match r {
                    Ok(obs) => {
                        println!("  observations {:?}", obs.iter().map(|o| o.describe()).collect::<Vec<_>>());
                        if obs.iter().any(|o| matches!(o, StepObs::Panic(_))) {
                            None
                        } else {
                            Some("no step aborted although a SAT call answered Unknown".into())
                        }
                    }
                    Err(_) => None,
                }
            }))
        }
        "external_dynamic" => {
            use crate::dynamic::{history_str, judge_history, run_history, DynKind, Op};
            let kind = DynKind::from_name(case["solver"].as_str().unwrap()).expect("unknown solver");
            let ops: Vec<Op> = case["history"].as_array().unwrap().iter().map(Op::from_json).collect();
            println!("case: {} history [{}] through the external backend", kind.name(), history_str(&ops));
            verdict(prop, path, twice(&|| {
                let dir = crate::checks::c16::scratch_dir("replay_extdyn");
                let log = dir.join("log.txt");
                let _ = std::fs::remove_file(&log);
                let obs = run_history(kind, &ops, crate::checks::c16::external_factory(vec![format!("log={}", log.display())]));
                let text = std::fs::read_to_string(&log).unwrap_or_default();
                for l in text.lines() {
                    if let Ok(v) = serde_json::from_str::<Value>(l) {
                        if v["problems"].as_array().map(|a| !a.is_empty()).unwrap_or(false) {
                            return Some(format!("ill-formed instance at SAT call {}: {}", v["call"], v["problems"]));
                        }
                    }
                }
                judge_history(kind, &ops, &obs).map(|d| d.message)
            }))
        }
        "writer" => {
            println!("case: writer checks are re-run as a whole (cheap): ./check C14");
            let code = crate::checks::c14::run(crate::report::Tier::Quick);
            code
        }
        other => {
            eprintln!("replay: engine {:?} has no single-case replay; re-run the owning check (./check {})", other, prop);
            2
        }
    }
}
