#!/bin/bash
# usage: eval_seeded.sh <patch.diff> <check id>...   -- applies the patch to /repo, runs the checks, reverts.
P=$1; shift
cd /repo || exit 2
[ -z "$(git status --porcelain -- src tests Cargo.toml)" ] || { echo "EVAL: /repo not clean"; exit 2; }
git apply "$P" || { echo "EVAL: patch does not apply"; exit 2; }
for c in "$@"; do
  OUT=$(cd ${EVAL_VERIF:-/verif} && ./check $c --tier ${TIER:-quick} 2>&1); RC=$?
  echo "EVAL check $c exit=$RC $(echo "$OUT" | grep -c '^VIOLATION') violation line(s)"
  echo "$OUT" | grep -E "^  C[0-9]+ \[" | head -4 | cut -c1-400
done
git -C /repo checkout -- . && git -C /repo clean -fdq src tests
echo "EVAL: reverted ($(git -C /repo status --porcelain | wc -l) dirty)"
