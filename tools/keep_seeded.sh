#!/bin/bash
# usage: keep_seeded.sh <worktree> <k> <seed id> <property> "<needs>" "<ran / result>"
W=$1; K=$2; ID=$3; PROP=$4; NEEDS=$5; RAN=$6
D=/verif/seeded/$ID
mkdir -p $D
cp $W/SEEDED/patch$K.diff $D/patch.diff
cp $W/SEEDED/demo$K.rs $D/demo.rs
cp $W/SEEDED/README.md $D/agent_README.md
python3 - "$D" "$PROP" "$NEEDS" "$RAN" <<'PY'
import json,sys
d,prop,needs,ran=sys.argv[1:5]
json.dump({"breaks_property":prop,"needs_to_manifest":needs,"confirmed":"in the agent's scratch worktree: patch applies, full suite (401 tests + 68 doc tests) passes with it, demo fails with it and passes without it (tools/confirm_seeded.sh)","checks_run":ran,"base_commit":"4c8b93f (final /repo HEAD)"},open(d+"/meta.json","w"),indent=1)
PY
echo kept $ID
