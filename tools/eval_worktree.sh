#!/bin/bash
# usage: eval_worktree.sh <worktree of /repo> <patch.diff> <check id>...
# Like eval_seeded.sh, but leaves /repo alone: the patch is applied in the given scratch worktree and
# the checks run from a copy of /verif (EVAL_VERIF, default /var/tmp/verif-dev) with CVX_REPO=<worktree>.
W=$1; P=$2; shift; shift
V=${EVAL_VERIF:-/var/tmp/verif-dev}
cd "$W" || exit 2
git checkout -q -- src tests 2>/dev/null
git apply "$P" || { echo "EVAL: patch does not apply"; exit 2; }
for c in "$@"; do
  OUT=$(cd $V && CVX_REPO=$W ./check $c --tier ${TIER:-quick} 2>&1); RC=$?
  echo "EVAL check $c exit=$RC $(echo "$OUT" | grep -c '^VIOLATION') violation line(s)"
  echo "$OUT" | grep -E "^  C[0-9]+ \[" | head -3 | cut -c1-400
done
git checkout -q -- src tests; git clean -fdq src tests
echo "EVAL: reverted"
