#!/bin/bash
# usage: confirm_seeded.sh <worktree> <k>   -- confirms patch<k>.diff + demo<k>.rs in the agent's worktree:
#  suite passes with the patch, demo fails with it, demo passes without it. Leaves the worktree clean.
W=$1; K=$2
cd "$W" || exit 2
export CARGO_TARGET_DIR=$W/target CARGO_NET_OFFLINE=true
git checkout -q -- src tests 2>/dev/null; rm -f tests/seeded_demo.rs
git apply --check SEEDED/patch$K.diff || { echo "CONFIRM: patch does not apply"; exit 1; }
git apply SEEDED/patch$K.diff
cargo test --workspace --no-fail-fast --offline > /var/tmp/confirm_suite.log 2>&1
SUITE=$(grep -E "^test result" /var/tmp/confirm_suite.log | awk '{p+=$4; f+=$6} END {print p" passed "f" failed"}')
echo "CONFIRM suite with patch: $SUITE"
cp SEEDED/demo$K.rs tests/seeded_demo.rs
cargo test --offline --test seeded_demo > /var/tmp/confirm_demo_with.log 2>&1; RW=$?
echo "CONFIRM demo with patch: exit $RW ($(grep -E '^test result' /var/tmp/confirm_demo_with.log | tail -1))"
git checkout -q -- src
cargo test --offline --test seeded_demo > /var/tmp/confirm_demo_without.log 2>&1; RO=$?
echo "CONFIRM demo without patch: exit $RO ($(grep -E '^test result' /var/tmp/confirm_demo_without.log | tail -1))"
rm -f tests/seeded_demo.rs; git checkout -q -- src tests
case "$SUITE" in *" 0 failed") S_OK=1;; *) S_OK=0;; esac
if [ $S_OK = 1 ] && [ $RW != 0 ] && [ $RO = 0 ]; then echo "CONFIRM: OK"; exit 0; else echo "CONFIRM: NOT CONFIRMED"; exit 1; fi
