#!/bin/bash
# usage: eval_auto.sh <patch.diff>  -- runs the quick checks relevant to the files a patch touches
P=$1
declare -A C
add() { for c in "$@"; do C[$c]=1; done; }
for f in $(grep -E '^\+\+\+ b/' "$P" | sed 's#^+++ b/##'); do
  case "$f" in
    src/aa/problem.rs) add C05 ;;
    src/aa/*|src/utils/label.rs) add C12 C14 C08 C09 C01 C13 C19 C10 C06 ;;
    src/utils/connected_components_computer.rs|src/utils/grounded_extension_computer.rs) add C01 C02 C03 C04 C07 C11 C12 C06 ;;
    src/utils/equivalency_computer.rs) add C19 ;;
    src/io/*) add C13 C14 C05 C11 ;;
    src/app/*|src/main*.rs) add C05 C17 ;;
    src/encodings/*) add C10 C01 C02 C03 C04 C06 C11 ;;
    src/solvers/*) add C01 C02 C03 C04 C07 C08 C17 C18 C06 C11 ;;
    src/sat/*) add C15 C16 C17 C06 ;;
    src/dynamics/*) add C08 C09 C17 C18 ;;
    *) add C01 ;;
  esac
done
LIST=$(echo "${!C[@]}" | tr ' ' '\n' | sort | tr '\n' ' ')
echo "AUTO: checks for $(basename $(dirname $P))/$(basename $P): $LIST"
exec $(dirname $0)/eval_seeded.sh "$P" $LIST
