/* Model of crustabri's exec_solver exchange (src/sat/external_sat_solver.rs):
 *   Parent  spawns Child, starts Writer (helper thread feeding the child's stdin), obtains the
 *           reply from the child's stdout and reaps the child.
 *   Two bounded pipes (stdin of the child: capacity CAPIN chunks; stdout: CAPOUT chunks).
 *   write blocks on a full pipe and fails (EPIPE) when the read end is closed;
 *   read blocks on an empty pipe and returns EOF when every write end is closed.
 *
 * Compile-time parameters (-D):
 *   VARIANT  0 = reap the child, then drain its stdout   (order of the code before the fix)
 *            1 = drain stdout to EOF, then reap          (required order)
 *   CAPIN, CAPOUT  pipe capacities in chunks
 * Chosen nondeterministically in init (so that one run of pan covers every scenario):
 *   behav    child behaviour: 0 read all then write; 1 interleave reads and writes in any order;
 *            2 write the reply first, then read; 3 never read, write, exit; 4 write half the reply
 *            then exit without reading; 5 exit at once
 *   isize    instance size in chunks (0 .. CAPIN+1), rsize reply size in chunks (0 .. 3*CAPOUT)
 * The parent must return having received rsize chunks (rsize/2 for behaviour 4, 0 for 5).
 *
 * Safety properties checked by pan (-DSAFETY): no invalid end state (= no deadlock: every process
 * reaches its end), and the assertion at the parent's end.
 */
#ifndef VARIANT
#define VARIANT 1
#endif
#ifndef CAPIN
#define CAPIN 1
#endif
#ifndef CAPOUT
#define CAPOUT 1
#endif
#define ISIZE isize
#define RSIZE rsize
#define BEHAV behav
byte isize = 0;
byte rsize = 0;
byte behav = 0;

byte in_cnt = 0;        /* chunks in the child's stdin pipe */
byte out_cnt = 0;       /* chunks in the child's stdout pipe */
bool in_wclosed = false;  /* writer end of stdin closed */
bool in_rclosed = false;  /* child's read end of stdin closed */
bool out_wclosed = false; /* child's write end of stdout closed */
bool out_rclosed = false; /* parent's read end closed */
bool child_exited = false;
byte got = 0;           /* reply chunks received by the parent */
bool parent_done = false;

proctype Writer() {
  byte left = ISIZE;
  do
  :: left > 0 ->
       if
       :: in_rclosed -> break                      /* EPIPE: the helper thread dies */
       :: !in_rclosed && in_cnt < CAPIN -> in_cnt++; left--
       fi
  :: left == 0 -> break
  od;
  in_wclosed = true
}

inline child_exit() {
  in_rclosed = true; out_wclosed = true; child_exited = true
}

proctype Child() {
  byte toread = 255;   /* unknown: reads until EOF */
  byte towrite = RSIZE;
  bool eof = false;
  if
  :: BEHAV == 5 -> child_exit()
  :: BEHAV == 3 || BEHAV == 4 ->
       if
       :: BEHAV == 4 -> towrite = RSIZE / 2
       :: else -> skip
       fi;
       do
       :: towrite > 0 ->
            if
            :: out_rclosed -> break                 /* SIGPIPE */
            :: !out_rclosed && out_cnt < CAPOUT -> out_cnt++; towrite--
            fi
       :: towrite == 0 -> break
       od;
       child_exit()
  :: BEHAV == 0 ->
       do
       :: in_cnt > 0 -> in_cnt--
       :: in_cnt == 0 && in_wclosed -> break        /* EOF */
       od;
       do
       :: towrite > 0 ->
            if
            :: out_rclosed -> break
            :: !out_rclosed && out_cnt < CAPOUT -> out_cnt++; towrite--
            fi
       :: towrite == 0 -> break
       od;
       child_exit()
  :: BEHAV == 2 ->
       do
       :: towrite > 0 ->
            if
            :: out_rclosed -> break
            :: !out_rclosed && out_cnt < CAPOUT -> out_cnt++; towrite--
            fi
       :: towrite == 0 -> break
       od;
       do
       :: in_cnt > 0 -> in_cnt--
       :: in_cnt == 0 && in_wclosed -> break
       od;
       child_exit()
  :: BEHAV == 1 ->
       /* any interleaving of reads and writes; exits when stdin is at EOF and the reply is out */
       do
       :: !eof && in_cnt > 0 -> in_cnt--
       :: !eof && in_cnt == 0 && in_wclosed -> eof = true
       :: towrite > 0 && !out_rclosed && out_cnt < CAPOUT -> out_cnt++; towrite--
       :: towrite > 0 && out_rclosed -> towrite = 0
       :: eof && towrite == 0 -> break
       od;
       child_exit()
  fi
}

proctype Parent() {
  if
  :: VARIANT == 0 ->
       child_exited;                                /* wait(): blocks until the child exited */
       do
       :: out_cnt > 0 -> out_cnt--; got++
       :: out_cnt == 0 && out_wclosed -> break      /* EOF */
       od
  :: VARIANT == 1 ->
       do
       :: out_cnt > 0 -> out_cnt--; got++
       :: out_cnt == 0 && out_wclosed -> break
       od;
       child_exited
  fi;
  out_rclosed = true;
  parent_done = true;
  if
  :: behav == 4 -> assert(got == rsize / 2)
  :: behav == 5 -> assert(got == 0)
  :: else -> assert(got == rsize)
  fi
}

init {
  select (behav : 0 .. 5);
  select (isize : 0 .. (CAPIN + 1));
  select (rsize : 0 .. (3 * CAPOUT));
  atomic { run Child(); run Writer(); run Parent() }
}
