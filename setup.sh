#!/bin/bash
# Builds the harness and the repository binaries offline from files on disk.
set -e
cd /verif
export CARGO_NET_OFFLINE=true
mkdir -p /verif/target /verif/evidence
(cd /verif/harness && CARGO_TARGET_DIR=/verif/target/harness cargo build --release --offline)
(cd /repo && CARGO_TARGET_DIR=/verif/target/repo cargo build --release --offline --bins)
echo setup ok
